#!/usr/bin/env python3
"""py2coq -- fail-closed, type-directed translator from the ladybug_geometry
Python source (working tree) to Gallina over Q.

It is a small compiler, not a pretty printer: every attribute access, operator
and method call is resolved (by the statically tracked Python class of each
value) to the *translated source* of the method it denotes, so a change inside
``__sub__``, ``dot`` or ``normalize`` propagates to every kernel that uses it.

Anything it does not understand raises ``Untranslatable`` and the requested
definition is NOT emitted (a comment is emitted instead), so every theorem that
mentions it stops compiling.

Python semantics embodied here (trusted, see DESIGN.md section 5):
  * floats are modelled as exact rationals (ideal model): + - * / ** abs min max
  * ``/`` is true division; Q division by zero is 0 in Coq, Python raises --
    ``try/except ZeroDivisionError`` is translated to an explicit zero test of
    the syntactic divisors of the try body
  * chained comparisons ``a < b < c`` expand to ``a < b and b < c`` literally
  * ``math.sqrt/cos/sin/tan/acos/atan2/pi`` become Section variables
    (``qsqrt`` ...); theorems quantify over them with pointwise hypotheses
  * asserts are dropped (theorems speak about normal returns); ``isinstance``
    is resolved statically from the tracked class
  * memo slots (``self._area is None`` ...) are treated as empty: the model of
    a cached property is the model of its first evaluation
"""
import ast, os, sys, re, textwrap
from fractions import Fraction


class Untranslatable(Exception):
    pass


# --------------------------------------------------------------------- types
class Ty:
    def __eq__(self, o): return type(self) is type(o) and self.__dict__ == o.__dict__
    def __hash__(self): return hash(repr(self))
    def __repr__(self): return self.coq()

class TQ(Ty):
    def coq(self): return 'Q'
class TZ(Ty):
    def coq(self): return 'Z'
class TB(Ty):
    def coq(self): return 'bool'
class TNum(Ty):            # integer literal: Q or Z by context
    def coq(self): return 'Q'
class TNone(Ty):           # statically None / absent optional argument
    def coq(self): return 'unit'
class TStr(Ty):
    def coq(self): return 'unit'
class TDefault(Ty):         # "argument not given: use the parameter's default"
    def coq(self): return 'unit'
class TObj(Ty):
    def __init__(self, cls): self.cls = cls
    def coq(self): return CLASSES.root_cfg(self.cls)['coq']
    def __repr__(self): return 'Obj(%s)' % self.cls
class TCls(Ty):            # a class object (cls argument / class name)
    def __init__(self, cls): self.cls = cls
    def coq(self): return 'unit'
class TOpt(Ty):
    def __init__(self, t): self.t = t
    def coq(self): return 'option (%s)' % self.t.coq()
class TTup(Ty):
    def __init__(self, ts): self.ts = tuple(ts)
    def coq(self): return '(' + ' * '.join(t.coq() for t in self.ts) + ')'
class TSum(Ty):
    def __init__(self, a, b): self.a, self.b = a, b
    def coq(self): return '(%s + %s)' % (self.a.coq(), self.b.coq())
class TLst(Ty):
    def __init__(self, t): self.t = t
    def coq(self): return 'list (%s)' % (self.t.coq() if self.t is not None else 'unit')

Q, Z, B, NUM, NONE, STR = TQ(), TZ(), TB(), TNum(), TNone(), TStr()


def same_coq(a, b):
    return a.coq() == b.coq()


# ------------------------------------------------------------ class registry
class ClassRegistry:
    """Python classes found in the source tree + the record configuration."""
    def __init__(self):
        self.cfg = {}      # class name -> config dict
        self.defs = {}     # class name -> (module, ast.ClassDef)
        self.bases = {}    # class name -> [base names]

    def mro(self, cls):
        out, todo = [], [cls]
        while todo:
            c = todo.pop(0)
            if c in out or c not in self.defs:
                continue
            out.append(c)
            todo = self.bases.get(c, []) + todo if False else todo + self.bases.get(c, [])
        return out

    def is_subclass(self, cls, base):
        return base in self.mro(cls)

    def root_cfg(self, cls):
        for c in self.mro(cls):
            if c in self.cfg:
                return self.cfg[c]
        raise Untranslatable('class %s has no record configuration' % cls)

    def find_member(self, cls, name):
        """(owner class, module, node) of attribute `name` looked up along the MRO.
        node is a FunctionDef, or ('alias', target_name) for `a = b` in a class body."""
        if name.startswith('__') and not name.endswith('__'):
            pass
        for c in self.mro(cls):
            mod, cd = self.defs[c]
            for st in cd.body:
                if isinstance(st, ast.FunctionDef) and st.name == name:
                    return c, mod, st
                if isinstance(st, ast.Assign) and len(st.targets) == 1 and \
                        isinstance(st.targets[0], ast.Name) and st.targets[0].id == name:
                    if isinstance(st.value, ast.Name):
                        return self.find_member(c, st.value.id)
                    return c, mod, st
        return None


CLASSES = ClassRegistry()


def is_validation(st):
    """a statement that can only raise (input validation): asserts, bare side-effect-free expressions, raises, loops / try blocks made
    of those.  Dropped like asserts: the model covers the inputs the constructor accepts."""
    if isinstance(st, (ast.Assert, ast.Pass, ast.Raise)):
        return True
    if isinstance(st, ast.Expr):
        return not any(isinstance(n, (ast.Call, ast.Await, ast.Yield, ast.NamedExpr)) for n in ast.walk(st.value))
    if isinstance(st, ast.For):
        return not st.orelse and all(is_validation(b) for b in st.body)
    if isinstance(st, ast.Try):
        return not st.orelse and not st.finalbody and all(is_validation(b) for b in st.body) \
            and all(all(isinstance(b, ast.Raise) for b in h.body) for h in st.handlers)
    return False


def rec(coq, ctor, fields, **kw):
    d = dict(coq=coq, ctor=ctor, fields=fields)
    d.update(kw)
    return d


def O(c):
    return TObj(c)


def configure_classes():
    c = CLASSES.cfg
    c['Vector2D'] = rec('V2', 'mkV2', [('_x', 'v2x', Q), ('_y', 'v2y', Q)])
    c['Vector3D'] = rec('V3', 'mkV3', [('_x', 'v3x', Q), ('_y', 'v3y', Q), ('_z', 'v3z', Q)])
    c['Base1DIn2D'] = rec('LR2', 'mkLR2', [('_p', 'lr2p', O('Point2D')), ('_v', 'lr2v', O('Vector2D'))])
    c['Base1DIn3D'] = rec('LR3', 'mkLR3', [('_p', 'lr3p', O('Point3D')), ('_v', 'lr3v', O('Vector3D'))])
    c['Plane'] = rec('PlaneR', 'mkPlane',
                     [('_n', 'pl_n', O('Vector3D')), ('_o', 'pl_o', O('Point3D')),
                      ('_k', 'pl_k', Q), ('_x', 'pl_x', O('Vector3D')), ('_y', 'pl_y', O('Vector3D'))])
    c['Arc2D'] = rec('Arc2R', 'mkArc2', [('_c', 'a2_c', O('Point2D')), ('_r', 'a2_r', Q),
                                         ('_a1', 'a2_a1', Q), ('_a2', 'a2_a2', Q)])
    c['Arc3D'] = rec('Arc3R', 'mkArc3', [('_plane', 'a3_plane', O('Plane')), ('_arc2d', 'a3_arc2d', O('Arc2D'))])
    c['Sphere'] = rec('SphereR', 'mkSphere', [('_center', 'sp_c', O('Point3D')), ('_radius', 'sp_r', Q)])
    c['Cone'] = rec('ConeR', 'mkCone', [('_vertex', 'co_vertex', O('Point3D')), ('_axis', 'co_axis', O('Vector3D')),
                                        ('_angle', 'co_angle', Q)])
    c['Cylinder'] = rec('CylR', 'mkCyl', [('_center', 'cy_c', O('Point3D')), ('_axis', 'cy_axis', O('Vector3D')),
                                          ('_radius', 'cy_r', Q)])
    c['Polygon2D'] = rec('Polygon2R', 'mkPolygon2', [('_vertices', 'pg_vertices', TLst(O('Point2D')))])
    c['Polyline2D'] = rec('Polyline2R', 'mkPolyline2', [('_vertices', 'pl2_vertices', TLst(O('Point2D'))),
                                                       ('_interpolated', 'pl2_interp', B)])
    c['Polyline3D'] = rec('Polyline3R', 'mkPolyline3', [('_vertices', 'pl3_vertices', TLst(O('Point3D'))),
                                                       ('_interpolated', 'pl3_interp', B)])
    # MODEL RESTRICTION: meshes WITHOUT colours (`_colors` is None); coloured meshes are outside the model
    c['Mesh2D'] = rec('Mesh2R', 'mkMesh2', [('_vertices', 'm2_vertices', TLst(O('Point2D'))),
                                            ('_faces', 'm2_faces', TLst(TLst(Z)))], none_slots={'_colors'})
    c['Mesh3D'] = rec('Mesh3R', 'mkMesh3', [('_vertices', 'm3_vertices', TLst(O('Point3D'))),
                                            ('_faces', 'm3_faces', TLst(TLst(Z)))], none_slots={'_colors'})
    c['Face3D'] = rec('Face3R', 'mkFace3', [('_boundary', 'f3_boundary', TLst(O('Point3D'))),
                                            ('_holes', 'f3_holes', TOpt(TLst(TLst(O('Point3D'))))),
                                            ('_plane', 'f3_plane', O('Plane'))],
                    # MODEL RESTRICTION: the Face3D model covers faces WITHOUT holes, where the merged vertex
                    # loop `_vertices` is the boundary itself; faces with holes are validated by the harness only
                    alias_slots={'_vertices': '_boundary'})
    c['BooleanPoint'] = rec('V2', 'mkV2', [('x', 'v2x', Q), ('y', 'v2y', Q)], plain_attrs=True)
    # earcut's linked-list node: the geometric predicates only read its coordinates
    c['_Node'] = rec('V2', 'mkV2', [('x', 'v2x', Q), ('y', 'v2y', Q)], plain_attrs=True)


# ---------------------------------------------------------------- the source
class Source:
    def __init__(self, root):
        self.root = root
        self.modules = {}   # dotted name -> ast.Module
        self.funcs = {}     # (module, name) -> FunctionDef
        self.imports = {}   # module -> {local name: (module, name)}
        self.consts = {}    # (module, name) -> ast expr
        for dp, dn, fn in os.walk(os.path.join(root, 'ladybug_geometry')):
            for f in fn:
                if not f.endswith('.py'):
                    continue
                p = os.path.join(dp, f)
                rel = os.path.relpath(p, root)[:-3].replace(os.sep, '.')
                if rel.endswith('.__init__'):
                    rel = rel[:-9]
                tree = ast.parse(open(p).read(), p)
                self.modules[rel] = tree
                self.imports[rel] = {}
                for st in tree.body:
                    if isinstance(st, ast.FunctionDef):
                        self.funcs[(rel, st.name)] = st
                    elif isinstance(st, ast.ClassDef):
                        if st.name in CLASSES.defs:
                            # name clash between modules (e.g. two private helpers)
                            if rel.count('.') > CLASSES.defs[st.name][0].count('.'):
                                continue
                        CLASSES.defs[st.name] = (rel, st)
                        CLASSES.bases[st.name] = [b.id if isinstance(b, ast.Name) else b.attr
                                                  for b in st.bases if isinstance(b, (ast.Name, ast.Attribute))]
                    elif isinstance(st, ast.ImportFrom):
                        base = rel.split('.')
                        is_pkg = p.endswith('__init__.py')
                        if st.level:
                            up = st.level - (1 if is_pkg else 0)
                            base = base[:len(base) - up] if not is_pkg else base[:len(base) - up]
                            if not is_pkg:
                                base = rel.split('.')[:-st.level]
                            tgt = '.'.join(base + (st.module.split('.') if st.module else []))
                        else:
                            tgt = st.module
                        for a in st.names:
                            self.imports[rel][a.asname or a.name] = (tgt, a.name)
                    elif isinstance(st, ast.Assign) and len(st.targets) == 1 and isinstance(st.targets[0], ast.Name):
                        self.consts[(rel, st.targets[0].id)] = st.value

    def resolve(self, module, name):
        """a module-level function or class visible as `name` in `module`"""
        if (module, name) in self.funcs:
            return ('func', module, self.funcs[(module, name)])
        if name in CLASSES.defs and (CLASSES.defs[name][0] == module or name in self.imports.get(module, {})):
            return ('class', name)
        if name in self.imports.get(module, {}):
            m, n = self.imports[module][name]
            if (m, n) in self.funcs:
                return ('func', m, self.funcs[(m, n)])
            if n in CLASSES.defs:
                return ('class', n)
        if name in CLASSES.defs:
            return ('class', name)
        return None


# ------------------------------------------------------------------ emitter
def qlit(v):
    fr = Fraction(str(v)) if isinstance(v, float) else Fraction(v)
    if fr.denominator == 1:
        return '(%d)' % fr.numerator if fr.numerator < 0 else '%d' % fr.numerator
    return '(%d # %d)' % (fr.numerator, fr.denominator)


def default_of(t):
    if isinstance(t, (TQ, TNum)): return '0'
    if isinstance(t, TZ): return '0%Z'
    if isinstance(t, TB): return 'false'
    if isinstance(t, TOpt): return 'None'
    if isinstance(t, TLst): return '[]'
    if isinstance(t, TTup): return '(' + ', '.join(default_of(x) for x in t.ts) + ')'
    if isinstance(t, TObj):
        cfg = CLASSES.root_cfg(t.cls)
        return '(%s %s)' % (cfg['ctor'], ' '.join(default_of(f[2]) for f in cfg['fields']))
    if isinstance(t, (TNone, TStr, TCls)): return 'tt'
    raise Untranslatable('no default for %r' % t)


class Val:
    """a translated expression: Coq text + static type"""
    __slots__ = ('s', 't', 'parts')
    def __init__(self, s, t, parts=None): self.s, self.t, self.parts = s, t, parts


def paren(s):
    s = s.strip()
    if re.fullmatch(r"[A-Za-z_][A-Za-z0-9_']*|\d+", s) or (s.startswith('(') and s.endswith(')') and balanced(s[1:-1])):
        return s
    return '(' + s + ')'


def balanced(s):
    d = 0
    for ch in s:
        if ch == '(':
            d += 1
        elif ch == ')':
            d -= 1
            if d < 0:
                return False
    return d == 0


def dead_let_elim(body):
    """drop `let x := e in` lines whose variable is never used afterwards (simple lets on one line)"""
    changed = True
    while changed:
        changed = False
        lines = body.split('\n')
        for i, ln in enumerate(lines):
            m = re.match(r"^(\s*)let ([A-Za-z_][A-Za-z0-9_']*) := (.*) in$", ln)
            if not m or not balanced(m.group(3)):
                continue
            rest = '\n'.join(lines[i + 1:])
            # scope ends where parentheses opened before close; conservative: look at the whole rest
            if not re.search(r"(?<![A-Za-z0-9_'])%s(?![A-Za-z0-9_'])" % re.escape(m.group(2)), rest):
                del lines[i]
                body = '\n'.join(lines)
                changed = True
                break
    return body


COQ_RESERVED = {'at', 'in', 'as', 'fun', 'let', 'match', 'end', 'if', 'then', 'else', 'with', 'return',
                'Type', 'Set', 'Prop', 'fix', 'for', 'forall', 'exists', 'using', 'where', 'S', 'O', 'Q', 'Z',
                'N', 'I', 'fst', 'snd', 'length', 'map', 'rev', 'last', 'nth', 'id', 'pi', 'mod', 'by', 'do', 'is', 'of',
                'cofix', 'struct', 'wf', 'now', 'from', 'le', 'lt', 'max', 'min', 'sum', 'tt', 'list', 'bool', 'nat', 'option'}


def vname(n):
    n = n.replace('__', '_dd_') if n.startswith('__') else n
    if n in COQ_RESERVED:
        return n + '_'
    if n.startswith('_'):
        return 'u' + n
    return n


ORACLES = ['fuel', 'qsqrt', 'qcos', 'qsin', 'qtan', 'qacos', 'qasin', 'qatan', 'qatan2', 'qpi']
ORACLE_TY = {o: 'Q -> Q' for o in ORACLES}
ORACLE_TY['fuel'] = 'nat'       # bound on the iterations of `while` loops (explicit, excluded by the theorems' statements)
ORACLE_TY['qatan2'] = 'Q -> Q -> Q'
ORACLE_TY['qpi'] = 'Q'


class Translator:
    def __init__(self, src):
        self.src = src
        self.out = []            # list of (name, text)
        self.done = {}           # instantiation key -> (coq name, ret type)
        self.names = set()
        self.stack = []
        self.canon = {}
        self.failed = {}         # requested name -> reason
        self.sigs = []           # one record per requested root: how to call it in Python and in Coq (used by harness/sweep.py)

    # ---------------------------------------------------------- instantiate
    def instantiate(self, kind, owner, mod, fn, arg_tys, want_name=None, self_cls=None):
        """translate function `fn` (FunctionDef) for the given argument types.
        kind: 'func' | 'method' | 'static' | 'classmethod' | 'init'"""
        key = (kind, owner, mod, fn.name, tuple(repr(a) for a in arg_tys), self_cls)
        if key in self.done:
            if want_name and want_name != self.done[key][0] and want_name not in self.names:
                # a root asks for a name of something already emitted: alias
                self.names.add(want_name)
                nm, rty, orcs = self.done[key]
                self.out.append((want_name, 'Definition %s := %s.\n' % (want_name, nm)))
            return self.done[key]
        if key in self.stack:
            raise Untranslatable('recursion in %s' % fn.name)
        fnm = fn.name
        if fnm.startswith('__') and fnm.endswith('__'):
            fnm = 'op_' + fnm.strip('_')
        base = want_name or ((owner + '_' + fnm) if owner else
                             ((mod.split('.')[-1] + '_' + fnm) if fnm.startswith('_') else fnm))
        if want_name is None and owner and self_cls and self_cls != owner and kind in ('init',):
            base = self_cls + '_' + fnm
        name, i = base, 1
        while name in self.names:
            i += 1
            name = '%s_%d' % (base, i)
        self.names.add(name)
        self.stack.append(key)
        try:
            ft = FuncTranslator(self, kind, owner, mod, fn, arg_tys, self_cls)
            text, rty = ft.translate(name)
        finally:
            self.stack.pop()
        orcs = [o for o in ORACLES if o in ft.oracles]
        canon = text.replace('Definition %s ' % name, 'Definition @ ', 1)
        if want_name is None and canon in self.canon:
            self.names.discard(name)
            name = self.canon[canon]
        else:
            self.canon.setdefault(canon, name)
            self.out.append((name, text))
        self.done[key] = (name, rty, orcs)
        return name, rty, orcs

    def request(self, spec):
        """spec: dict(name=coq name, target='module:func' | 'Class.method', args=[types])"""
        try:
            tgt = spec['target']
            if ':' in tgt:
                mod, fname = tgt.split(':')
                mod = 'ladybug_geometry.' + mod
                fn = self.src.funcs.get((mod, fname))
                if fn is None:
                    raise Untranslatable('no function %s' % tgt)
                res = self.instantiate('func', None, mod, fn, spec['args'], spec.get('name'))
                self.sigs.append(dict(spec=spec, kind='func', owner=None, module=mod, func=fname, result=res))
                return res
            cls, meth = tgt.split('.')
            found = CLASSES.find_member(cls, meth if not meth.startswith('__') or meth.endswith('__') else meth)
            if found is None:
                raise Untranslatable('no member %s' % tgt)
            owner, mod, fn = found
            kind = method_kind(fn)
            if meth == '__init__':
                kind = 'init'
            res = self.instantiate(kind, owner, mod, fn, spec['args'], spec.get('name'), self_cls=cls)
            self.sigs.append(dict(spec=spec, kind=kind, owner=owner, module=mod, func=meth, cls=cls, result=res))
            return res
        except Exception as e:
            if not isinstance(e, Untranslatable):
                e = Untranslatable('translator error %s: %s' % (type(e).__name__, e))
            self.failed[spec.get('name', spec['target'])] = str(e)
            self.out.append((spec.get('name', spec['target']),
                             '(* UNTRANSLATABLE %s: %s *)\n' % (spec.get('name', spec['target']), e)))
            return None


def method_kind(fn):
    for d in fn.decorator_list:
        if isinstance(d, ast.Name):
            if d.id == 'staticmethod': return 'static'
            if d.id == 'classmethod': return 'classmethod'
            if d.id == 'property': return 'property'
    return 'method'


def stmts_return(stmts):
    """does every path through stmts end in return/raise?"""
    for st in stmts:
        if isinstance(st, (ast.Return, ast.Raise)):
            return True
        if isinstance(st, ast.If) and stmts_return(st.body) and stmts_return(st.orelse):
            return True
        if isinstance(st, ast.Try) and stmts_return(st.body) and all(stmts_return(h.body) for h in st.handlers):
            return True
    return False


def contains_return(stmts):
    for st in stmts:
        for n in ast.walk(st):
            if isinstance(n, (ast.Return, ast.Raise, ast.Break, ast.Continue)):
                return True
    return False


def assigned_names(stmts):
    out = []
    def tgt(t):
        if isinstance(t, ast.Name):
            if t.id not in out: out.append(t.id)
        elif isinstance(t, (ast.Tuple, ast.List)):
            for e in t.elts: tgt(e)
        elif isinstance(t, ast.Attribute) and isinstance(t.value, ast.Name) and t.value.id == 'self':
            n = 'self.' + t.attr
            if n not in out: out.append(n)
        elif isinstance(t, ast.Subscript) and isinstance(t.value, ast.Name):
            if isinstance(t.slice, ast.Constant) and isinstance(t.slice.value, int):
                n = '%s_%d' % (t.value.id, t.slice.value)
                if n not in out: out.append(n)
            if t.value.id not in out: out.append(t.value.id)
    for st in stmts:
        for n in ast.walk(st):
            if isinstance(n, ast.Assign):
                for t in n.targets: tgt(t)
            elif isinstance(n, ast.AugAssign):
                tgt(n.target)
            elif isinstance(n, ast.For):
                tgt(n.target)
            elif isinstance(n, ast.Expr) and isinstance(n.value, ast.Call) and isinstance(n.value.func, ast.Attribute) \
                    and n.value.func.attr in ('append', 'extend', 'insert', 'pop', 'reverse', 'sort') \
                    and isinstance(n.value.func.value, ast.Name):
                if n.value.func.value.id not in out: out.append(n.value.func.value.id)
    return out


class FuncTranslator:
    def __init__(self, tr, kind, owner, mod, fn, arg_tys, self_cls):
        self.tr, self.kind, self.owner, self.mod, self.fn = tr, kind, owner, mod, fn
        self.arg_tys = list(arg_tys)
        self.self_cls = self_cls or owner
        self.ret_ty = None
        self.ret_seen = []
        self.pass_no = 0
        self.oracles = set()

    def fail(self, node, msg):
        raise Untranslatable('%s.%s line %s: %s' % (self.owner or self.mod.split('.')[-1], self.fn.name,
                                                     getattr(node, 'lineno', '?'), msg))

    # ------------------------------------------------------------ signature
    def translate(self, name):
        fn = self.fn
        params = [a.arg for a in fn.args.args]
        defaults = [None] * (len(params) - len(fn.args.defaults)) + list(fn.args.defaults)
        env = {}
        coq_params = []
        arg_tys = list(self.arg_tys)
        if self.kind in ('method', 'property'):
            # first arg type is the receiver
            pass
        elif self.kind == 'init':
            params = params[1:]; defaults = defaults[1:]
            env['self'] = Val('<building>', TObj(self.self_cls))
            self.building = {}
        elif self.kind == 'classmethod':
            env[params[0]] = Val('tt', TCls(self.self_cls))
            params = params[1:]; defaults = defaults[1:]
        if len(arg_tys) > len(params):
            self.fail(fn, 'too many arguments')
        for i, p in enumerate(params):
            if i < len(arg_tys) and not isinstance(arg_tys[i], TDefault):
                t = arg_tys[i]
            else:
                d = defaults[i]
                if d is None:
                    self.fail(fn, 'missing argument %s' % p)
                if isinstance(d, ast.Constant) and d.value is None:
                    t = NONE
                else:
                    # default value: bind by let below
                    t = ('default', d)
            if isinstance(t, tuple):
                env[p] = ('default', t[1])
                continue
            if isinstance(t, (TNone, TCls, TStr)):
                env[p] = Val('tt', t)
            else:
                if isinstance(t, TNum):
                    t = Q
                env[p] = Val(vname(p), t)
                coq_params.append('(%s : %s)' % (vname(p), t.coq()))
        # bind defaults
        pre = ''
        for p in params:
            if isinstance(env.get(p), tuple):
                v = self.expr(env[p][1], env)
                env[p] = v
        self.is_init = self.kind == 'init'
        # pass 1: infer return type
        self.pass_no = 1
        self.ret_seen = []
        self.block(list(fn.body), dict(env))
        self.ret_ty = self.unify_returns(self.ret_seen)
        self.pass_no = 2
        body = self.block(list(fn.body), dict(env))
        body = dead_let_elim(body)
        self.oracles = {o for o in ORACLES if re.search(r'\b%s\b' % o, body)}
        orc = ['(%s : %s)' % (o, ORACLE_TY[o]) for o in ORACLES if o in self.oracles]
        text = 'Definition %s %s : %s :=\n  %s.\n' % (name, ' '.join(orc + coq_params), self.ret_ty.coq(), body)
        return text, self.ret_ty

    def unify_returns(self, tys):
        if self.is_init:
            return TObj(self.self_cls)
        if not tys:
            self.fail(self.fn, 'no return value')
        cur = None
        has_none = False
        for t in tys:
            if isinstance(t, TNone):
                has_none = True
                continue
            if isinstance(t, TOpt):
                has_none = True
                t = t.t
            if cur is None:
                cur = t
                continue
            if isinstance(cur, TSum):
                if self.try_join(cur.a, t) is not None:
                    cur = TSum(self.try_join(cur.a, t), cur.b)
                elif self.try_join(cur.b, t) is not None:
                    cur = TSum(cur.a, self.try_join(cur.b, t))
                else:
                    self.fail(self.fn, 'more than two unrelated return types')
                continue
            j = self.try_join(cur, t)
            cur = j if j is not None else TSum(cur, t)
        if cur is None:
            return NONE
        if isinstance(cur, TNum):
            cur = Z          # a function returning only integer literals returns an int
        if has_none and not isinstance(cur, TOpt):
            cur = TOpt(cur)
        return cur

    def try_join(self, a, b):
        try:
            return self.join(a, b)
        except Untranslatable:
            return None

    def join(self, a, b):
        if a == b: return a
        if isinstance(a, TNum) and isinstance(b, (TQ, TZ, TNum)): return b
        if isinstance(b, TNum) and isinstance(a, (TQ, TZ)): return a
        if isinstance(a, TZ) and isinstance(b, TQ) or isinstance(a, TQ) and isinstance(b, TZ): return Q
        if isinstance(a, TNone): return b if isinstance(b, TOpt) else TOpt(b)
        if isinstance(b, TNone): return a if isinstance(a, TOpt) else TOpt(a)
        if isinstance(a, TOpt) and isinstance(b, TOpt): return TOpt(self.join(a.t, b.t))
        if isinstance(a, TOpt): return TOpt(self.join(a.t, b))
        if isinstance(b, TOpt): return TOpt(self.join(a, b.t))
        if isinstance(a, TObj) and isinstance(b, TObj) and same_coq(a, b):
            # common ancestor
            for c in CLASSES.mro(a.cls):
                if CLASSES.is_subclass(b.cls, c): return TObj(c)
            return a
        if isinstance(a, TLst) and isinstance(b, TLst):
            if a.t is None: return b
            if b.t is None: return a
            return TLst(self.join(a.t, b.t))
        if isinstance(a, TTup) and isinstance(b, TTup) and len(a.ts) == len(b.ts):
            return TTup([self.join(x, y) for x, y in zip(a.ts, b.ts)])
        # a homogeneous tuple used where a list is (Python sequences): the list type wins
        if isinstance(a, TLst) and isinstance(b, TTup) or isinstance(a, TTup) and isinstance(b, TLst):
            l_, t_ = (a, b) if isinstance(a, TLst) else (b, a)
            e_ = l_.t
            for x in t_.ts:
                e_ = x if e_ is None else self.join(e_, x)
            return TLst(e_)
        raise Untranslatable('%s: cannot unify types %r and %r' % (self.fn.name, a, b))

    def coerce(self, v, t):
        """coerce value v to type t (Coq text)"""
        if isinstance(t, TSum) and not isinstance(v.t, TSum):
            if self.try_join(t.a, v.t) is not None and same_coq(self.try_join(t.a, v.t), t.a):
                return 'inl ' + paren(self.coerce(v, t.a))
            if self.try_join(t.b, v.t) is not None and same_coq(self.try_join(t.b, v.t), t.b):
                return 'inr ' + paren(self.coerce(v, t.b))
        if isinstance(t, TOpt):
            if isinstance(v.t, TNone): return 'None'
            if isinstance(v.t, TOpt):
                if same_coq(v.t, t): return v.s
            else:
                return 'Some ' + paren(self.coerce(v, t.t))
        if isinstance(t, TQ):
            if isinstance(v.t, TZ): return 'inject_Z ' + paren(v.s)
            if isinstance(v.t, (TQ, TNum)): return v.s
        if isinstance(t, TZ) and isinstance(v.t, TNum):
            return v.s + '%Z'
        if isinstance(t, TTup) and isinstance(v.t, TTup) and not same_coq(v.t, t):
            # element-wise coercion needs the components; only literal tuples reach here
            raise Untranslatable('tuple coercion')
        if isinstance(t, TLst) and isinstance(v.t, TLst) and v.t.t is None: return v.s
        if isinstance(t, TLst) and isinstance(v.t, TTup):
            l_ = self.tuple_to_list(v)
            if t.t is None or same_coq(l_.t, t): return l_.s
        if same_coq(v.t, t): return v.s
        raise Untranslatable('%s: cannot coerce %r to %r' % (self.fn.name, v.t, t))

    # ------------------------------------------------------------ statements
    def finish(self, env):
        """value of falling off the end of the function"""
        if self.is_init:
            cfg = CLASSES.root_cfg(self.self_cls)
            parts = []
            for slot, acc, ty in cfg['fields']:
                key = 'self.' + slot
                if key not in env:
                    self.fail(self.fn, '__init__ does not assign %s' % slot)
                parts.append(paren(self.coerce(env[key], ty)))
            return '%s %s' % (cfg['ctor'], ' '.join(parts))
        return self.ret(Val('tt', NONE))

    def ret(self, v):
        if self.pass_no == 1:
            self.ret_seen.append(v.t)
            return v.s
        return self.coerce(v, self.ret_ty)

    def block(self, stmts, env):
        if not stmts:
            return self.finish(env)
        st, rest = stmts[0], stmts[1:]
        if isinstance(st, ast.Expr):
            if isinstance(st.value, ast.Constant):
                return self.block(rest, env)
            return self.expr_stmt(st, rest, env)
        if isinstance(st, ast.Pass):
            return self.block(rest, env)
        if isinstance(st, ast.Assert):
            return self.block(rest, env)
        if isinstance(st, ast.Return):
            if self.is_init:
                return self.finish(env)
            if st.value is None:
                return self.ret(Val('tt', NONE))
            v = self.expr(st.value, env)
            return self.ret(v)
        if isinstance(st, ast.Assign):
            if len(st.targets) != 1:
                self.fail(st, 'multiple assignment targets')
            return self.assign(st.targets[0], st.value, rest, env, st)
        if isinstance(st, ast.AugAssign):
            val = ast.BinOp(left=self.as_load(st.target), op=st.op, right=st.value)
            ast.copy_location(val, st)
            return self.assign(st.target, val, rest, env, st)
        if isinstance(st, ast.If):
            return self.if_stmt(st, rest, env)
        if isinstance(st, ast.For):
            return self.for_stmt(st, rest, env)
        if isinstance(st, ast.While):
            return self.while_stmt(st, rest, env)
        if isinstance(st, ast.Try):
            return self.try_stmt(st, rest, env)
        if isinstance(st, ast.Raise):
            self.fail(st, 'raise on a reachable path')
        self.fail(st, 'statement %s' % type(st).__name__)

    def int_vars(self):
        """names used inside subscript indices, range() bounds or compared/added with them: Python ints"""
        scope = getattr(self, 'scope_fn', None) or self.fn
        cache = self.__dict__.setdefault('_int_vars', {})
        if id(scope) not in cache:
            names = set()
            for n in ast.walk(scope):
                if isinstance(n, ast.Subscript) and not isinstance(n.slice, ast.Slice):
                    for m in ast.walk(n.slice):
                        if isinstance(m, ast.Name):
                            names.add(m.id)
                if isinstance(n, ast.Call) and isinstance(n.func, ast.Name) and n.func.id in ('range', 'xrange'):
                    for a in n.args:
                        for m in ast.walk(a):
                            if isinstance(m, ast.Name):
                                names.add(m.id)
            # closure: x = y (+|-) const with y an int var, or y = x ... (one round is enough for the code base)
            for n in ast.walk(scope):
                if isinstance(n, ast.Assign) and len(n.targets) == 1 and isinstance(n.targets[0], ast.Name):
                    used = {m.id for m in ast.walk(n.value) if isinstance(m, ast.Name)}
                    if used and used <= names and all(isinstance(m, (ast.Name, ast.BinOp, ast.Constant, ast.Add, ast.Sub, ast.Load, ast.UnaryOp, ast.USub))
                                                      for m in ast.walk(n.value)):
                        names.add(n.targets[0].id)
            # counters: names that are only ever assigned integer literals / integer arithmetic on such names
            def int_expr(e, ok):
                if isinstance(e, ast.Constant):
                    return isinstance(e.value, int) and not isinstance(e.value, bool)
                if isinstance(e, ast.Name):
                    return e.id in ok
                if isinstance(e, ast.BinOp) and isinstance(e.op, (ast.Add, ast.Sub, ast.Mult)):
                    return int_expr(e.left, ok) and int_expr(e.right, ok)
                if isinstance(e, ast.UnaryOp) and isinstance(e.op, ast.USub):
                    return int_expr(e.operand, ok)
                if isinstance(e, ast.Call) and isinstance(e.func, ast.Name) and e.func.id == 'len':
                    return True
                return False
            assigns = {}
            loop_vars = set()
            for n in ast.walk(scope):
                if isinstance(n, ast.Assign) and len(n.targets) == 1 and isinstance(n.targets[0], ast.Name):
                    assigns.setdefault(n.targets[0].id, []).append(n.value)
                elif isinstance(n, ast.AugAssign) and isinstance(n.target, ast.Name):
                    assigns.setdefault(n.target.id, []).append(ast.BinOp(left=ast.Name(id=n.target.id), op=n.op, right=n.value))
                elif isinstance(n, ast.Assign) and len(n.targets) == 1 and isinstance(n.targets[0], ast.Tuple) \
                        and isinstance(n.value, ast.Tuple) and len(n.value.elts) == len(n.targets[0].elts):
                    for t, v in zip(n.targets[0].elts, n.value.elts):
                        if isinstance(t, ast.Name):
                            assigns.setdefault(t.id, []).append(v)
                elif isinstance(n, ast.For):
                    for m in ast.walk(n.target):
                        if isinstance(m, ast.Name):
                            loop_vars.add(m.id)
            params = {a.arg for a in scope.args.args} if isinstance(scope, ast.FunctionDef) else set()
            cand = {k for k in assigns if k not in params and k not in loop_vars}
            changed = True
            while changed:
                changed = False
                for k in list(cand):
                    if not all(int_expr(v, cand | names) for v in assigns[k]):
                        cand.discard(k); changed = True
            names |= cand
            cache[id(scope)] = names
        return cache[id(scope)]

    def fixed_list(self, name):
        """is `name` used in this function only through constant subscripts (a fixed-size record)?"""
        scope = getattr(self, 'scope_fn', None) or self.fn
        for n in ast.walk(scope):
            if isinstance(n, ast.Name) and n.id == name:
                par = self.parents(scope).get(id(n))
                if isinstance(par, ast.Subscript) and par.value is n and isinstance(par.slice, ast.Constant) \
                        and isinstance(par.slice.value, int):
                    continue
                if isinstance(par, ast.Assign) and n in par.targets:
                    continue
                if isinstance(par, ast.Compare) and all(isinstance(c, (ast.List, ast.Tuple)) or c is n
                                                        for c in [par.left] + par.comparators):
                    continue
                return False
        return True

    def parents(self, scope=None):
        scope = scope or self.fn
        if not hasattr(self, '_parents'):
            self._parents = {}
        if id(scope) not in self._parents:
            d = {}
            for p in ast.walk(scope):
                for c in ast.iter_child_nodes(p):
                    d[id(c)] = p
            self._parents[id(scope)] = d
        return self._parents[id(scope)]

    def as_load(self, t):
        t2 = ast.parse(ast.unparse(t), mode='eval').body
        return t2

    def bind(self, name, v, env):
        """let-bind python variable `name` to value v; returns (prefix text, new env)"""
        env = dict(env)
        if isinstance(v.t, (TNone, TCls, TStr)):
            env[name] = Val('tt', v.t)
            return '', env
        cn = vname(name.replace('self.', 'self_'))
        t = Q if isinstance(v.t, TNum) else v.t
        vs = v.s
        if isinstance(v.t, TNum) and name in self.int_vars():
            t, vs = Z, self.coerce(v, Z)       # an integer literal bound to a name that is used as an index / counter
        env[name] = Val(cn, t)
        return 'let %s := %s in\n  ' % (cn, vs), env

    def assign(self, target, value, rest, env, st):
        if isinstance(target, ast.Name) and isinstance(value, (ast.Tuple, ast.List)) and value.elts \
                and not any(isinstance(x, ast.Starred) for x in value.elts) \
                and (isinstance(value, ast.Tuple) or self.fixed_list(target.id)):
            # keep the components of a literal tuple (or fixed-size list) as separate variables
            pre, env2, keys = '', dict(env), []
            for i, el in enumerate(value.elts):
                v = self.expr(el, env)
                k = '%s_%d' % (target.id, i)
                p, env2 = self.bind(k, v, env2)
                pre += p
                keys.append(k)
            env2[target.id] = ('parts', keys)
            return pre + self.block(rest, env2)
        if isinstance(target, ast.Name):
            v = self.expr(value, env)
            pre, env2 = self.bind(target.id, v, env)
            return pre + self.block(rest, env2)
        if isinstance(target, ast.Attribute) and isinstance(target.value, ast.Name) and target.value.id == 'self':
            v = self.expr(value, env)
            pre, env2 = self.bind('self.' + target.attr, v, env)
            return pre + self.block(rest, env2)
        if isinstance(target, ast.Attribute) and isinstance(target.value, ast.Name) and target.value.id in env \
                and isinstance(env[target.value.id], Val) and isinstance(env[target.value.id].t, TObj) \
                and target.attr.startswith('_'):
            cfg = CLASSES.root_cfg(env[target.value.id].t.cls)
            if target.attr not in [f[0] for f in cfg['fields']]:
                return self.block(rest, env)      # memo slot of another object: not part of its value
            # defining slot of a local object: functional record update
            obj = env[target.value.id]
            v = self.expr(value, env)
            parts = []
            for slot, acc, ty in cfg['fields']:
                if slot == target.attr:
                    parts.append(paren(self.coerce(v, ty)))
                else:
                    parts.append('(%s %s)' % (acc, paren(obj.s)))
            new = Val('%s %s' % (cfg['ctor'], ' '.join(parts)), obj.t)
            pre, env2 = self.bind(target.value.id, new, env)
            return pre + self.block(rest, env2)
        if isinstance(target, (ast.Tuple, ast.List)):
            v = self.expr(value, env)
            if not isinstance(v.t, TTup) or len(v.t.ts) != len(target.elts):
                self.fail(st, 'tuple unpacking of %r' % v.t)
            if v.parts or isinstance(value, ast.Tuple):
                parts = v.parts or [self.expr(x, env) for x in value.elts]
                pre, env2 = '', dict(env)
                for e, pv in zip(target.elts, parts):
                    if not isinstance(e, ast.Name):
                        self.fail(st, 'nested unpacking')
                    p, env2 = self.bind(e.id, pv, env2)
                    pre += p
                return pre + self.block(rest, env2)
            names = []
            env2 = dict(env)
            for e, t in zip(target.elts, v.t.ts):
                if not isinstance(e, ast.Name):
                    self.fail(st, 'nested unpacking')
                cn = vname(e.id)
                names.append(cn)
                env2[e.id] = Val(cn, Q if isinstance(t, TNum) else t)
            return "let '(%s) := %s in\n  " % (', '.join(names), v.s) + self.block(rest, env2)
        if isinstance(target, ast.Subscript) and isinstance(target.value, ast.Name) \
                and isinstance(env.get(target.value.id), tuple) and env[target.value.id][0] == 'parts' \
                and isinstance(target.slice, ast.Constant) and isinstance(target.slice.value, int):
            keys = env[target.value.id][1]
            k = keys[target.slice.value]
            v = self.expr(value, env)
            pre, env2 = self.bind(k, v, env)
            return pre + self.block(rest, env2)
        if isinstance(target, ast.Subscript) and isinstance(target.value, ast.Name):
            # l[i] = v   (list update)
            lst = self.expr(target.value, env)
            idx = self.expr(target.slice, env)
            v = self.expr(value, env)
            if isinstance(lst.t, TLst):
                new = Val('py_set_nth %s %s %s' % (paren(lst.s), paren(self.coerce(idx, Z)), paren(self.coerce(v, lst.t.t))), lst.t)
                pre, env2 = self.bind(target.value.id, new, env)
                return pre + self.block(rest, env2)
        self.fail(st, 'assignment target')

    def inline_self_effects(self, fn, mod, rest, env, st, args=(), argvals=()):
        """inline a property / method of self evaluated for its effect on memo slots"""
        body = [b for b in fn.body if not (isinstance(b, ast.Expr) and isinstance(b.value, ast.Constant))]
        if body and isinstance(body[-1], ast.Return):
            body = body[:-1]
        if contains_return(body):
            self.fail(st, 'cannot inline %s for its side effects (early return)' % fn.name)
        env_in = dict(env)
        pre = ''
        for p, v in zip(args, argvals):
            pp, env_in = self.bind(p, v, env_in)
            pre += pp
        live = [n for n in assigned_names(body) if n.startswith('self.')]
        saved, saved_scope = self.mod, getattr(self, 'scope_fn', None)
        self.mod, self.scope_fn = mod, fn
        try:
            s_, env_out = self.branch_tuple(body, env_in, live)
        finally:
            self.mod, self.scope_fn = saved, saved_scope
        env2 = dict(env)
        for k, v in env_out.items():
            if k.startswith('self.'):
                env2[k] = v
        return pre + s_ + self.block(rest, env2)

    def only_touches_memo_of_args(self, fn):
        """does this method only assign memo slots of its (non-self) parameters?"""
        params = [a.arg for a in fn.args.args]
        for b in fn.body:
            if isinstance(b, ast.Expr) and isinstance(b.value, ast.Constant):
                continue
            if isinstance(b, ast.Assign) and len(b.targets) == 1 and isinstance(b.targets[0], ast.Attribute) \
                    and isinstance(b.targets[0].value, ast.Name) and b.targets[0].value.id in params[1:] \
                    and b.targets[0].attr.startswith('_'):
                continue
            if isinstance(b, ast.If) and all(isinstance(x, ast.Assign) and isinstance(x.targets[0], ast.Attribute)
                                             and isinstance(x.targets[0].value, ast.Name)
                                             and x.targets[0].value.id in params[1:] for x in b.body + b.orelse):
                continue
            return False
        return True

    def expr_stmt(self, st, rest, env):
        c = st.value
        # self.prop  /  self.method(...)  evaluated only to fill memo slots of self
        if isinstance(c, ast.Attribute) and isinstance(c.value, ast.Name) and c.value.id == 'self' and not self.is_init:
            found = CLASSES.find_member(self.self_cls, c.attr)
            if found and isinstance(found[2], ast.FunctionDef) and method_kind(found[2]) == 'property':
                return self.inline_self_effects(found[2], found[1], rest, env, st)
        if isinstance(c, ast.Call) and isinstance(c.func, ast.Attribute) and isinstance(c.func.value, ast.Name) \
                and c.func.value.id == 'self' and not self.is_init:
            found = CLASSES.find_member(self.self_cls, c.func.attr)
            if found and isinstance(found[2], ast.FunctionDef) and method_kind(found[2]) == 'method':
                fn = found[2]
                if self.only_touches_memo_of_args(fn):
                    # transfer of slots to another (local) object: memo slots do not change its value, but an assignment to one
                    # of its DEFINING slots (e.g. Polyline._interpolated) does: those are replayed as record updates of the local
                    params_ = [a.arg for a in fn.args.args]
                    upd = []
                    for b in fn.body:
                        for x in ([b] if isinstance(b, ast.Assign) else (b.body + b.orelse if isinstance(b, ast.If) else [])):
                            if not isinstance(x, ast.Assign):
                                continue
                            t = x.targets[0]
                            k = params_.index(t.value.id) - 1
                            if k >= len(c.args) or not isinstance(c.args[k], ast.Name):
                                self.fail(st, 'slot transfer to a non-variable argument')
                            loc = c.args[k].id
                            lv = env.get(loc)
                            if isinstance(lv, Val) and isinstance(lv.t, TObj):
                                cfg = CLASSES.root_cfg(lv.t.cls)
                                if t.attr in [f[0] for f in cfg['fields']]:
                                    if isinstance(b, ast.If):
                                        self.fail(st, 'conditional transfer of a defining slot')
                                    na = ast.Assign(targets=[ast.Attribute(value=ast.Name(id=loc, ctx=ast.Load()), attr=t.attr, ctx=ast.Store())],
                                                    value=x.value)
                                    ast.copy_location(na, st); ast.fix_missing_locations(na)
                                    upd.append(na)
                    return self.block(upd + list(rest), env)
                params = [a.arg for a in fn.args.args][1:]
                if len(params) == len(c.args):
                    vals = [self.expr(a, env) for a in c.args]
                    return self.inline_self_effects(fn, found[1], rest, env, st, params, vals)
        # X.append(X.pop(0)): rotate left
        if isinstance(c, ast.Call) and isinstance(c.func, ast.Attribute) and c.func.attr == 'append' \
                and isinstance(c.func.value, ast.Name) and len(c.args) == 1 and isinstance(c.args[0], ast.Call) \
                and isinstance(c.args[0].func, ast.Attribute) and c.args[0].func.attr == 'pop' \
                and isinstance(c.args[0].func.value, ast.Name) and c.args[0].func.value.id == c.func.value.id \
                and len(c.args[0].args) == 1 and isinstance(c.args[0].args[0], ast.Constant) and c.args[0].args[0].value == 0:
            nm = c.func.value.id
            lst = env[nm]
            new = Val('py_rotl %s' % paren(lst.s), lst.t)
            pre, env2 = self.bind(nm, new, env)
            return pre + self.block(rest, env2)
        # Base.__init__(self, a, b) inside __init__: inline the base initialiser
        if self.is_init and isinstance(c, ast.Call) and isinstance(c.func, ast.Attribute) and c.func.attr == '__init__' \
                and isinstance(c.func.value, ast.Name) and c.args and isinstance(c.args[0], ast.Name) and c.args[0].id == 'self':
            base = c.func.value.id
            found = CLASSES.find_member(base, '__init__')
            if found is None:
                self.fail(st, 'no __init__ on %s' % base)
            owner, mod, fn = found
            params = [a.arg for a in fn.args.args][1:]
            defaults = [None] * (len(params) - len(fn.args.defaults)) + list(fn.args.defaults)
            args = [self.expr(a, env) for a in c.args[1:]]
            env_in = {k: v for k, v in env.items() if k == 'self' or k.startswith('self.')}
            pre = ''
            for i, p in enumerate(params):
                if i < len(args):
                    v = args[i]
                elif defaults[i] is not None:
                    v = self.expr(defaults[i], {})
                else:
                    self.fail(st, 'missing base init argument')
                pp, env_in = self.bind(p, v, env_in)
                pre += pp
            saved_mod, saved_scope = self.mod, getattr(self, 'scope_fn', None)
            self.mod, self.scope_fn = mod, fn
            try:
                body = [b for b in fn.body]
                live = [n for n in assigned_names(body) if n.startswith('self.')]
                s_, env_out = self.branch_tuple(body, env_in, live)
            finally:
                self.mod, self.scope_fn = saved_mod, saved_scope
            env2 = dict(env)
            for k, v in env_out.items():
                if k.startswith('self.'):
                    env2[k] = v
            return pre + s_ + self.block(rest, env2)
        if isinstance(c, ast.Call) and isinstance(c.func, ast.Attribute) and isinstance(c.func.value, ast.Name):
            nm, meth = c.func.value.id, c.func.attr
            if nm in env and isinstance(env[nm], Val) and isinstance(env[nm].t, TLst):
                lst = env[nm]
                if meth == 'append' and len(c.args) == 1:
                    v = self.expr(c.args[0], env)
                    et = lst.t.t
                    if et is None:
                        et = Q if isinstance(v.t, TNum) else v.t
                    new = Val('%s ++ [%s]' % (lst.s, self.coerce(v, et)), TLst(et))
                    pre, env2 = self.bind(nm, new, env)
                    return pre + self.block(rest, env2)
                if meth == 'extend' and len(c.args) == 1:
                    v = self.expr(c.args[0], env)
                    if isinstance(v.t, TTup):
                        v = self.tuple_to_list(v)
                    et = lst.t.t or v.t.t
                    new = Val('%s ++ %s' % (lst.s, paren(v.s)), TLst(et))
                    pre, env2 = self.bind(nm, new, env)
                    return pre + self.block(rest, env2)
                if meth == 'reverse' and not c.args:
                    new = Val('rev %s' % paren(lst.s), lst.t)
                    pre, env2 = self.bind(nm, new, env)
                    return pre + self.block(rest, env2)
        self.fail(st, 'expression statement')

    def tuple_to_list(self, v):
        t = v.t.ts[0]
        for x in v.t.ts[1:]:
            t = self.join(t, x)
        n = len(v.t.ts)
        names = ['t%d_' % i for i in range(n)]
        return Val("(let '(%s) := %s in [%s])" % (', '.join(names), v.s, '; '.join(names)), TLst(t))

    def static_cond(self, test, env):
        """True/False if the test is decided statically, else None"""
        if isinstance(test, ast.Compare) and len(test.ops) == 1 and isinstance(test.ops[0], (ast.Is, ast.IsNot)) \
                and isinstance(test.comparators[0], ast.Constant) and test.comparators[0].value is None:
            neg = isinstance(test.ops[0], ast.IsNot)
            l = test.left
            # memo slots of self are empty
            if isinstance(l, ast.Attribute) and isinstance(l.value, ast.Name) and l.value.id == 'self' \
                    and not self.is_init and ('self.' + l.attr) not in env and self.is_cache_slot(l.attr):
                return (not neg)
            try:
                v = self.expr(l, env)
            except Untranslatable:
                return None
            if isinstance(v.t, TNone):
                return (not neg)
            if not isinstance(v.t, TOpt):
                return neg
            return None
        if isinstance(test, ast.Call) and isinstance(test.func, ast.Name) and test.func.id == 'isinstance':
            v = self.expr(test.args[0], env)
            classes = test.args[1].elts if isinstance(test.args[1], ast.Tuple) else [test.args[1]]
            names = [c.id for c in classes if isinstance(c, ast.Name)]
            if isinstance(v.t, TObj):
                return any(CLASSES.is_subclass(v.t.cls, n) for n in names)
            if isinstance(v.t, (TQ, TNum, TZ)):
                return any(n in ('int', 'float') for n in names)
            if isinstance(v.t, (TLst, TTup)):
                return any(n in ('list', 'tuple') for n in names)
            return None
        if isinstance(test, ast.UnaryOp) and isinstance(test.op, ast.Not):
            r = self.static_cond(test.operand, env)
            return None if r is None else (not r)
        if isinstance(test, ast.BoolOp):
            rs = [self.static_cond(v, env) for v in test.values]
            if isinstance(test.op, ast.And):
                if any(r is False for r in rs): return False
                if all(r is True for r in rs): return True
            else:
                if any(r is True for r in rs): return True
                if all(r is False for r in rs): return False
            return None
        if isinstance(test, ast.Constant) and isinstance(test.value, bool):
            return test.value
        if isinstance(test, ast.Name) and test.id in env and isinstance(env[test.id], Val) \
                and isinstance(env[test.id].t, TNone):
            return False
        if isinstance(test, ast.Name) and test.id in env and isinstance(env[test.id], Val) \
                and isinstance(env[test.id].t, TB) and env[test.id].s in ('true', 'false'):
            return env[test.id].s == 'true'       # a flag left at its literal default (e.g. check_intersection=False)
        if isinstance(test, ast.Call) and isinstance(test.func, ast.Name) and test.func.id in ('all', 'any') and len(test.args) == 1 \
                and isinstance(test.args[0], ast.GeneratorExp) and len(test.args[0].generators) == 1 \
                and not test.args[0].generators[0].ifs and isinstance(test.args[0].generators[0].target, ast.Name):
            # all(c(x) for x in L) / any(...) where c(x) is decided statically for every element (e.g. `x._memo is not None`: the model
            # has no memo).  MODEL RESTRICTION: L is taken to be non-empty (all() of an empty list is True).
            g = test.args[0].generators[0]
            try:
                it = self.expr(g.iter, env)
            except Untranslatable:
                return None
            if isinstance(it.t, TLst) and it.t.t is not None:
                env2 = dict(env)
                env2[g.target.id] = Val(g.target.id + '_', it.t.t)
                r = self.static_cond(test.args[0].elt, env2)
                if r is not None:
                    return r
            return None
        if isinstance(test, ast.Attribute):
            try:
                v = self.expr(test, env)
            except Untranslatable:
                return None
            if isinstance(v.t, TNone):
                return False                      # a slot the model fixes to None (e.g. mesh colours)
        return None

    def is_cache_slot(self, attr):
        cfg = CLASSES.root_cfg(self.self_cls)
        return attr.startswith('_') and attr not in [f[0] for f in cfg['fields']]

    def opt_test(self, test, env):
        """`x is None` / `x is not None` on an option-typed variable: (name, val, is_none_branch_first)"""
        if isinstance(test, ast.Compare) and len(test.ops) == 1 and isinstance(test.ops[0], (ast.Is, ast.IsNot)) \
                and isinstance(test.comparators[0], ast.Constant) and test.comparators[0].value is None \
                and isinstance(test.left, ast.Name):
            v = self.expr(test.left, env)
            if isinstance(v.t, TOpt):
                return test.left.id, v, isinstance(test.ops[0], ast.Is)
        return None

    def if_stmt(self, st, rest, env):
        sc = self.static_cond(st.test, env)
        if sc is True:
            return self.block(list(st.body) + rest, env)
        if sc is False:
            return self.block(list(st.orelse) + rest, env)
        ot = self.opt_test(st.test, env)
        if ot is not None:
            nm, v, none_first = ot
            none_body, some_body = (st.body, st.orelse) if none_first else (st.orelse, st.body)
            env_none = dict(env); env_none[nm] = Val('tt', NONE)
            env_some = dict(env); cn = vname(nm); env_some[nm] = Val(cn, v.t.t)
            a = self.block(list(none_body) + rest, env_none)
            b = self.block(list(some_body) + rest, env_some)
            return 'match %s with\n  | None => %s\n  | Some %s => %s\n  end' % (v.s, a, cn, b)
        c = self.cond(st.test, env)
        if not contains_return(st.body) and not contains_return(st.orelse) and (rest or getattr(self, 'extra_live', None)):
            # merge form: only assignments
            names = [n for n in assigned_names(st.body + st.orelse)]
            used = set()
            for r_ in rest:
                for nd in ast.walk(r_):
                    if isinstance(nd, ast.Name):
                        used.add(nd.id)
                    elif isinstance(nd, ast.Attribute) and isinstance(nd.value, ast.Name) and nd.value.id == 'self':
                        used.add('self.' + nd.attr)
            if self.is_init:
                used |= {'self.' + f[0] for f in CLASSES.root_cfg(self.self_cls)['fields']}
            for lv in getattr(self, 'extra_live', None) or []:
                used |= set(lv)
            live = []
            for n in names:
                if isinstance(env.get(n), tuple):
                    continue
                base_ = n.rsplit('_', 1)[0]
                if n not in used and not (base_ in used and isinstance(env.get(base_), tuple)):
                    continue
                in_a = n in assigned_names(st.body) or n in env
                in_b = n in assigned_names(st.orelse) or n in env
                if in_a and in_b:
                    live.append(n)
            if live:
                a_s, a_env = self.branch_tuple(list(st.body), env, live)
                b_s, b_env = self.branch_tuple(list(st.orelse), env, live)
                env2 = dict(env)
                cns = []
                parts_a, parts_b = [], []
                for n in live:
                    ta, tb = a_env[n].t, b_env[n].t
                    t = self.join(ta, tb)
                    if isinstance(t, TNum): t = Q
                    cn = vname(n.replace('self.', 'self_'))
                    cns.append(cn)
                    env2[n] = Val(cn, t)
                    parts_a.append(self.coerce(a_env[n], t))
                    parts_b.append(self.coerce(b_env[n], t))
                if len(live) == 1:
                    pat = cns[0]
                    ta_, tb_ = parts_a[0], parts_b[0]
                else:
                    pat = "'(" + ', '.join(cns) + ')'
                    ta_, tb_ = '(' + ', '.join(parts_a) + ')', '(' + ', '.join(parts_b) + ')'
                return 'let %s := (if %s then %s%s else %s%s) in\n  %s' % (
                    pat, c, a_s, ta_, b_s, tb_, self.block(rest, env2))
        a = self.block(list(st.body) + rest, env)
        b = self.block(list(st.orelse) + rest, env)
        return 'if %s then %s\n  else %s' % (c, paren(a), paren(b))

    def branch_tuple(self, stmts, env, live):
        """translate assignment-only statements, returning (let-prefix, env)"""
        marker = []
        saved_finish = self.finish
        result = {}
        def fin(e):
            result['env'] = e
            return '\0'
        self.finish = fin
        if not hasattr(self, 'extra_live'):
            self.extra_live = []
        self.extra_live.append(list(live))
        try:
            s = self.block(stmts, env)
        finally:
            self.finish = saved_finish
            self.extra_live.pop()
        if 'env' not in result or not s.endswith('\0') or s.count('\0') != 1:
            self.fail(stmts[0] if stmts else self.fn, 'branch is not assignment-only')
        return s[:-1], result['env']

    def try_stmt(self, st, rest, env):
        if len(st.handlers) == 1 and isinstance(st.handlers[0].type, ast.Name):
            exc = st.handlers[0].type.id
            if exc == 'ZeroDivisionError':
                divs = []
                for b in st.body:
                    for n in ast.walk(b):
                        if isinstance(n, ast.BinOp) and isinstance(n.op, ast.Div):
                            divs.append(n.right)
                if not divs:
                    self.fail(st, 'try/except ZeroDivisionError without a syntactic division')
                tests = []
                for d in divs:
                    v = self.expr(d, env)
                    t_ = 'Qeq_bool %s 0' % paren(self.coerce(v, Q))
                    if t_ not in tests:
                        tests.append(t_)
                c = ' || '.join(paren(t) for t in tests)
                hb = st.handlers[0].body
                if hb and isinstance(hb[0], ast.Raise):
                    # the handler only re-raises: division by zero is an error exit, theorems are
                    # about normal returns (precondition: the divisors are non-zero)
                    return self.block(list(st.body) + rest, env)
                a = self.block(list(st.handlers[0].body) + rest, env)
                b = self.block(list(st.body) + rest, env)
                return 'if %s then %s\n  else %s' % (c, paren(a), paren(b))
            if st.handlers[0].body and isinstance(st.handlers[0].body[0], ast.Raise):
                # the handler only re-raises as another error: theorems are about normal returns
                return self.block(list(st.body) + rest, env)
            if exc == 'ValueError':
                # math domain errors (acos of 1+eps) cannot occur in the ideal model
                return self.block(list(st.body) + rest, env)
        self.fail(st, 'try statement')

    def rewrite_break(self, st):
        """for x in L: A; if c: B; break; C     ->     brk_ = False; for x in L: if not brk_: A; if c: B; brk_ = True  else: C
        (the loop keeps iterating but does nothing once the flag is set: same final state for every list).  Only a `break` that is the
        last statement of a top-level `if` of the loop body is handled; anything else stays untranslatable."""
        if st.orelse:
            return None
        hits = [k for k, b in enumerate(st.body) if isinstance(b, ast.If) and b.body and isinstance(b.body[-1], ast.Break)]
        if len(hits) != 1:
            return None
        k = hits[0]
        iff = st.body[k]
        others = st.body[:k] + iff.body[:-1] + iff.orelse + st.body[k + 1:]
        for o in others:
            for n in ast.walk(o):
                if isinstance(n, (ast.Break, ast.Continue, ast.Return, ast.Raise)):
                    return None
        self._brk_n = getattr(self, '_brk_n', 0) + 1
        flag = 'brk%d_' % self._brk_n
        setf = ast.Assign(targets=[ast.Name(id=flag, ctx=ast.Store())], value=ast.Constant(value=True))
        orelse = iff.orelse + st.body[k + 1:]
        new_if = ast.If(test=iff.test, body=iff.body[:-1] + [setf], orelse=orelse)
        guard = ast.If(test=ast.UnaryOp(op=ast.Not(), operand=ast.Name(id=flag, ctx=ast.Load())), body=st.body[:k] + [new_if], orelse=[])
        loop = ast.For(target=st.target, iter=st.iter, body=[guard], orelse=[])
        init = ast.Assign(targets=[ast.Name(id=flag, ctx=ast.Store())], value=ast.Constant(value=False))
        for n in (setf, new_if, guard, loop, init):
            ast.copy_location(n, st)
            ast.fix_missing_locations(n)
        return [init, loop]

    def for_stmt(self, st, rest, env):
        if all(is_validation(b) for b in st.body):
            return self.block(rest, env)
        if any(isinstance(n, ast.Break) for b in st.body for n in ast.walk(b)):
            rw = self.rewrite_break(st)
            if rw is not None:
                return self.block(rw + list(rest), env)
        if not st.orelse and contains_return(st.body):
            # search loop:  for x in L: <assignments>; if cond: return E      (first hit wins)
            last = st.body[-1]
            pre_b = st.body[:-1]
            if isinstance(last, ast.If) and not last.orelse and len(last.body) == 1 and isinstance(last.body[0], ast.Return) \
                    and not contains_return(pre_b) and not [n for n in assigned_names(pre_b) if n in env]:
                it = self.iterable(st.iter, env)
                env_b = dict(env)
                pat = self.pattern(st.target, it.t.t, env_b)
                pre_s, env_c = self.branch_tuple(list(pre_b), env_b, []) if pre_b else ('', env_b)
                c = self.cond(last.test, env_c)
                rv = self.expr(last.body[0].value, env_c) if last.body[0].value is not None else Val('tt', NONE)
                hit = self.ret(rv)
                rest_s = self.block(rest, env)
                rt = self.ret_ty.coq() if self.pass_no == 2 else '_'
                return ('match fold_left (fun (acc_ : option (%s)) %s => match acc_ with Some r_ => Some r_ | None => %sif %s then Some (%s) '
                        'else None end) %s None with\n  | Some r_ => r_\n  | None => %s\n  end' % (
                            rt, pat, pre_s, c, hit, paren(it.s), rest_s))
        if st.orelse or contains_return(st.body):
            self.fail(st, 'for loop with return/break/continue/else')
        it = self.iterable(st.iter, env)
        acc = [n for n in assigned_names(st.body) if n in env and not isinstance(env[n], tuple)]
        if not acc:
            self.fail(st, 'for loop without accumulator')
        # loop variable pattern
        env_b = dict(env)
        pat = self.pattern(st.target, it.t.t, env_b)
        acc_c = []
        for n in acc:
            v = env[n]
            cn = vname(n.replace('self.', 'self_'))
            acc_c.append(cn)
            env_b[n] = Val(cn, v.t)
        body_s, body_env = self.branch_tuple(list(st.body), env_b, acc)
        # accumulators that start as an empty list get their element type from the loop body
        retry = False
        for n in acc:
            if isinstance(env[n].t, TLst) and env[n].t.t is None and isinstance(body_env[n].t, TLst) \
                    and body_env[n].t.t is not None:
                env = dict(env)
                env[n] = Val(env[n].s, body_env[n].t)
                retry = True
        if retry:
            env_b = dict(env)
            pat = self.pattern(st.target, it.t.t, env_b)
            for n, cn in zip(acc, acc_c):
                env_b[n] = Val(cn, env[n].t)
            body_s, body_env = self.branch_tuple(list(st.body), env_b, acc)
        if pat.startswith("'(") and isinstance(it.t.t, TTup) and any(isinstance(x, TB) for x in it.t.t.ts):
            # a boolean component gives Coq nothing to infer the pair type from (`if b then ...`): bind the pair with its type
            body_s = "let %s := p_ in " % pat + body_s
            pat = '(p_ : %s)' % it.t.t.coq()
        outs = []
        for n in acc:
            outs.append(self.coerce(body_env[n], env[n].t))
        def init_of(n):
            v = env[n]
            if isinstance(v.t, TLst) and v.t.t is not None:
                return '(%s : %s)' % (v.s, v.t.coq())      # an empty-list literal needs its element type
            return v.s
        if len(acc) == 1:
            accpat, acctup, init = acc_c[0], outs[0], init_of(acc[0])
        else:
            accpat = "'(" + ', '.join(acc_c) + ')'
            acctup = '(' + ', '.join(outs) + ')'
            init = '(' + ', '.join(init_of(n) for n in acc) + ')'
        env2 = dict(env)
        for n, cn in zip(acc, acc_c):
            env2[n] = Val(cn, env[n].t)
        if retry:
            # some accumulator starts as an empty list: give the accumulator its type explicitly
            tys = [(Q if isinstance(env[n].t, TNum) else env[n].t).coq() for n in acc]
            ty = tys[0] if len(acc) == 1 else '(' + ' * '.join(tys) + ')'
            unpack = '' if len(acc) == 1 else "let %s := acc_ in " % accpat
            binder = '(%s : %s)' % (acc_c[0], ty) if len(acc) == 1 else '(acc_ : %s)' % ty
            fold = 'fold_left (fun %s %s => %s%s%s) %s %s' % (binder, pat, unpack, body_s, acctup, paren(it.s), init)
        else:
            fold = 'fold_left (fun %s %s => %s%s) %s %s' % (
                accpat if len(acc) == 1 else "'(" + ', '.join(acc_c) + ')', pat, body_s, acctup, paren(it.s), init)
        return 'let %s := %s in\n  %s' % (accpat, fold, self.block(rest, env2))

    def while_stmt(self, st, rest, env):
        """while cond: <assignments>   ->   py_while fuel (fun st => cond) (fun st => body) st0
        (recursion on the explicit parameter `fuel`; when it runs out the current state is returned)"""
        if st.orelse or contains_return(st.body):
            self.fail(st, 'while loop with return/break/continue/else')
        acc = [n for n in assigned_names(st.body) if n in env and not isinstance(env[n], tuple)]
        if not acc:
            self.fail(st, 'while loop without state')
        env_b = dict(env)
        acc_c = []
        for n in acc:
            cn = vname(n.replace('self.', 'self_'))
            acc_c.append(cn)
            t = env[n].t
            env_b[n] = Val(cn, Q if isinstance(t, TNum) else t)
        c = self.cond(st.test, env_b)
        body_s, body_env = self.branch_tuple(list(st.body), env_b, acc)
        outs = [self.coerce(body_env[n], env_b[n].t) for n in acc]
        tys = [env_b[n].t.coq() for n in acc]
        if len(acc) == 1:
            binder = '(%s : %s)' % (acc_c[0], tys[0]); unpack = ''; acctup = outs[0]; accpat = acc_c[0]
            init = '(%s : %s)' % (self.coerce(env[acc[0]], env_b[acc[0]].t), tys[0])
        else:
            binder = '(st_ : %s)' % ('(' + ' * '.join(tys) + ')')
            accpat = "'(" + ', '.join(acc_c) + ')'
            unpack = 'let %s := st_ in ' % accpat
            acctup = '(' + ', '.join(outs) + ')'
            init = '(' + ', '.join('(%s : %s)' % (self.coerce(env[n], env_b[n].t), t) for n, t in zip(acc, tys)) + ')'
        self.oracles.add('fuel')
        loop = 'py_while fuel (fun %s => %s%s) (fun %s => %s%s%s) %s' % (binder, unpack, c, binder, unpack, body_s, acctup, init)
        env2 = dict(env)
        for n, cn in zip(acc, acc_c):
            env2[n] = Val(cn, env_b[n].t)
        return 'let %s := %s in\n  %s' % (accpat, loop, self.block(rest, env2))

    def pattern(self, target, ty, env):
        if isinstance(target, ast.Name):
            cn = vname(target.id)
            env[target.id] = Val(cn, ty)
            return cn
        if isinstance(target, ast.Tuple) and isinstance(ty, TTup) and len(ty.ts) == len(target.elts):
            parts = [self.pattern(e, t, env) for e, t in zip(target.elts, ty.ts)]
            return "'(" + ', '.join(p[2:-1] if p.startswith("'(") else p for p in parts) + ')' \
                if not any(p.startswith("'(") for p in parts) else "'(" + ', '.join(
                    ('(' + p[2:-1] + ')') if p.startswith("'(") else p for p in parts) + ')'
        self.fail(target, 'loop target')

    def iterable(self, e, env):
        if isinstance(e, ast.Call) and isinstance(e.func, ast.Name):
            f = e.func.id
            if f == 'enumerate' and len(e.args) == 1:
                l = self.iterable(e.args[0], env)
                return Val('py_enumerate %s' % paren(l.s), TLst(TTup([Z, l.t.t])))
            if f in ('range', 'xrange'):
                args = [self.coerce(self.expr(a, env), Z) for a in e.args]
                if len(args) == 1:
                    return Val('py_range 0%%Z %s' % paren(args[0]), TLst(Z))
                if len(args) == 2:
                    return Val('py_range %s %s' % (paren(args[0]), paren(args[1])), TLst(Z))
            if f == 'zip' and len(e.args) == 2:
                a, b = self.iterable(e.args[0], env), self.iterable(e.args[1], env)
                return Val('combine %s %s' % (paren(a.s), paren(b.s)), TLst(TTup([a.t.t, b.t.t])))
            if f == 'reversed' and len(e.args) == 1:
                a = self.iterable(e.args[0], env)
                return Val('rev %s' % paren(a.s), a.t)
        v = self.expr(e, env)
        if isinstance(v.t, TTup):
            v = self.tuple_to_list(v)
        if isinstance(v.t, TObj):
            # an object that defines `__iter__` as `return iter(self.<slot>)` (the vertex containers do): iterate that slot
            found = CLASSES.find_member(v.t.cls, '__iter__')
            if found is not None:
                owner, mod, fn = found
                body = [b for b in fn.body if not (isinstance(b, ast.Expr) and isinstance(b.value, ast.Constant))]
                if len(body) == 1 and isinstance(body[0], ast.Return) and isinstance(body[0].value, ast.Call) \
                        and isinstance(body[0].value.func, ast.Name) and body[0].value.func.id == 'iter' and len(body[0].value.args) == 1 \
                        and isinstance(body[0].value.args[0], ast.Attribute) and isinstance(body[0].value.args[0].value, ast.Name) \
                        and body[0].value.args[0].value.id == 'self':
                    v = self.getattr_val(v, body[0].value.args[0].attr, e)
        if not isinstance(v.t, TLst):
            self.fail(e, 'iteration over %r' % v.t)
        return v

    # ----------------------------------------------------------- conditions
    def cond(self, e, env):
        v = self.expr(e, env)
        return self.truthy(v, e)

    def truthy(self, v, node=None):
        if isinstance(v.t, TB): return v.s
        if isinstance(v.t, (TQ, TNum)): return 'Qneq_bool %s 0' % paren(v.s)
        if isinstance(v.t, TZ): return 'negb (%s =? 0)%%Z' % v.s
        if isinstance(v.t, TOpt): return 'negb (opt_is_none %s)' % paren(v.s)
        if isinstance(v.t, TLst): return 'negb (py_len %s =? 0)%%Z' % paren(v.s)
        self.fail(node or self.fn, 'truth value of %r' % v.t)

    # ---------------------------------------------------------- expressions
    def expr(self, e, env):
        m = getattr(self, 'e_' + type(e).__name__, None)
        if m is None:
            self.fail(e, 'expression %s' % type(e).__name__)
        return m(e, env)

    def e_Constant(self, e, env):
        v = e.value
        if v is None: return Val('tt', NONE)
        if v is True: return Val('true', B)
        if v is False: return Val('false', B)
        if isinstance(v, int): return Val(qlit(v), NUM)
        if isinstance(v, float): return Val(qlit(v), Q)
        if isinstance(v, str): return Val('tt', STR)
        self.fail(e, 'constant %r' % (v,))

    def e_Name(self, e, env):
        if e.id in env:
            v = env[e.id]
            if isinstance(v, tuple) and v[0] == 'parts':
                parts = [env[k] for k in v[1]]
                return Val('(' + ', '.join(p.s for p in parts) + ')', TTup([p.t for p in parts]), parts)
            if isinstance(v, tuple):
                return self.expr(v[1], env)
            return v
        r = self.tr.src.resolve(self.mod, e.id)
        if r and r[0] == 'class':
            return Val('tt', TCls(r[1]))
        if (self.mod, e.id) in self.tr.src.consts:
            return self.expr(self.tr.src.consts[(self.mod, e.id)], {})
        self.fail(e, 'unbound name %s' % e.id)

    def e_Tuple(self, e, env):
        vs = [self.expr(x, env) for x in e.elts]
        if not vs:
            return Val('[]', TLst(None))
        return Val('(' + ', '.join(self.coerce(v, Q) if isinstance(v.t, TNum) else v.s for v in vs) + ')',
                   TTup([Q if isinstance(v.t, TNum) else v.t for v in vs]))

    def e_List(self, e, env):
        vs = [self.expr(x, env) for x in e.elts]
        if not vs:
            return Val('[]', TLst(None))
        t = vs[0].t
        for v in vs[1:]:
            t = self.join(t, v.t)
        if isinstance(t, TNum): t = Q
        return Val('[' + '; '.join(self.coerce(v, t) for v in vs) + ']', TLst(t))

    def e_IfExp(self, e, env):
        sc = self.static_cond(e.test, env)
        if sc is True: return self.expr(e.body, env)
        if sc is False: return self.expr(e.orelse, env)
        ot = self.opt_test(e.test, env)
        if ot is not None:
            nm, v, none_first = ot
            nb, sb = (e.body, e.orelse) if none_first else (e.orelse, e.body)
            env_none = dict(env); env_none[nm] = Val('tt', NONE)
            env_some = dict(env); cn = vname(nm); env_some[nm] = Val(cn, v.t.t)
            a, b = self.expr(nb, env_none), self.expr(sb, env_some)
            t = self.join(a.t, b.t)
            if isinstance(t, TNum): t = Q
            return Val('match %s with None => %s | Some %s => %s end' % (v.s, self.coerce(a, t), cn, self.coerce(b, t)), t)
        c = self.cond(e.test, env)
        a, b = self.expr(e.body, env), self.expr(e.orelse, env)
        t = self.try_join(a.t, b.t)
        if t is None:
            t = TSum(a.t, b.t)
        if isinstance(t, TNum): t = Q
        return Val('(if %s then %s else %s)' % (c, self.coerce(a, t), self.coerce(b, t)), t)

    def e_UnaryOp(self, e, env):
        v = self.expr(e.operand, env)
        if isinstance(e.op, ast.Not):
            return Val('negb %s' % paren(self.truthy(v, e)), B)
        if isinstance(e.op, ast.USub):
            if isinstance(v.t, TNum):
                if isinstance(e.operand, ast.Constant):
                    return Val(qlit(-e.operand.value), NUM)
                return Val('(- %s)' % paren(v.s), NUM)
            if isinstance(v.t, TQ): return Val('(- %s)' % paren(v.s), Q)
            if isinstance(v.t, TZ): return Val('(- %s)%%Z' % paren(v.s), Z)
            if isinstance(v.t, TObj): return self.call_method(v, '__neg__', [], e)
        if isinstance(e.op, ast.UAdd):
            return v
        self.fail(e, 'unary operator')

    def e_BoolOp(self, e, env):
        sc = self.static_cond(e, env)
        if sc is not None:
            return Val('true' if sc else 'false', B)
        vals = []
        for x in e.values:
            s = self.static_cond(x, env)
            if s is True and isinstance(e.op, ast.And): continue
            if s is False and isinstance(e.op, ast.Or): continue
            vals.append(self.cond(x, env))
        op = ' && ' if isinstance(e.op, ast.And) else ' || '
        return Val('(' + op.join(paren(v) for v in vals) + ')', B)

    def e_Compare(self, e, env):
        parts = []
        left = e.left
        for op, right in zip(e.ops, e.comparators):
            parts.append(self.compare1(left, op, right, env, e))
            left = right
        if len(parts) == 1:
            return Val(parts[0], B)
        return Val('(' + ' && '.join(paren(p) for p in parts) + ')', B)

    def compare1(self, l, op, r, env, node):
        if isinstance(op, (ast.Is, ast.IsNot)) and isinstance(r, ast.Constant) and isinstance(r.value, bool):
            v = self.expr(l, env)
            if isinstance(v.t, TB):
                pos = (r.value is True) == isinstance(op, ast.Is)
                return v.s if pos else 'negb %s' % paren(v.s)
            self.fail(node, 'is True/False on %r' % v.t)
        if isinstance(op, (ast.Is, ast.IsNot)):
            sc = self.static_cond(ast.Compare(left=l, ops=[op], comparators=[r]), env)
            if sc is not None:
                return 'true' if sc else 'false'
            v = self.expr(l, env)
            if isinstance(v.t, TOpt) and isinstance(r, ast.Constant) and r.value is None:
                s = 'opt_is_none %s' % paren(v.s)
                return s if isinstance(op, ast.Is) else 'negb (%s)' % s
            # `a is b` / `a is not b` between two booleans (True and False are singletons: identity is equality)
            w = self.expr(r, env)
            if isinstance(v.t, TB) and isinstance(w.t, TB):
                s = 'Bool.eqb %s %s' % (paren(v.s), paren(w.s))
                return s if isinstance(op, ast.Is) else 'negb (%s)' % s
            self.fail(node, 'is-comparison')
        pl, pr = self.parts_of(l, env), self.parts_of(r, env)
        if pl is not None and pr is not None and len(pl) == len(pr) and isinstance(op, (ast.Eq, ast.NotEq)):
            ps = [self.numcmp(x, ast.Eq(), y, node) for x, y in zip(pl, pr)]
            s_ = '(' + ' && '.join(paren(p) for p in ps) + ')'
            return s_ if isinstance(op, ast.Eq) else 'negb ' + s_
        a, b = self.expr(l, env), self.expr(r, env)
        if isinstance(a.t, TObj) or isinstance(b.t, TObj):
            if isinstance(op, (ast.Eq, ast.NotEq)) and isinstance(a.t, TObj):
                r_ = self.call_method(a, '__eq__', [b], node)
                return r_.s if isinstance(op, ast.Eq) else 'negb %s' % paren(r_.s)
            self.fail(node, 'object comparison')
        if isinstance(a.t, TTup) and isinstance(b.t, TTup) and isinstance(op, (ast.Eq, ast.NotEq)) \
                and len(a.t.ts) == len(b.t.ts) and isinstance(l, ast.Tuple) and isinstance(r, ast.Tuple):
            ps = [self.compare1(x, ast.Eq(), y, env, node) for x, y in zip(l.elts, r.elts)]
            s = '(' + ' && '.join(paren(p) for p in ps) + ')'
            return s if isinstance(op, ast.Eq) else 'negb ' + s
        if isinstance(a.t, TTup) and isinstance(b.t, TTup) and isinstance(op, (ast.Eq, ast.NotEq)) and len(a.t.ts) == len(b.t.ts) \
                and all(isinstance(t, (TQ, TZ, TNum)) for t in a.t.ts + b.t.ts):
            n = len(a.t.ts)
            xa = ['ta%d_' % i for i in range(n)]; xb = ['tb%d_' % i for i in range(n)]
            ps = [self.numcmp(Val(x, ta), ast.Eq(), Val(y, tb), node) for x, y, ta, tb in zip(xa, xb, a.t.ts, b.t.ts)]
            s = "(let '(%s) := %s in let '(%s) := %s in %s)" % (', '.join(xa), a.s, ', '.join(xb), b.s, ' && '.join(paren(p_) for p_ in ps))
            return s if isinstance(op, ast.Eq) else 'negb ' + s
        if isinstance(a.t, TB) and isinstance(b.t, TB) and isinstance(op, (ast.Eq, ast.NotEq)):
            s = 'Bool.eqb %s %s' % (paren(a.s), paren(b.s))
            return s if isinstance(op, ast.Eq) else 'negb (%s)' % s
        if isinstance(a.t, TB) or isinstance(b.t, TB):
            # python compares bools as ints: True == 1, False == 0 (chained comparisons in earcut)
            a2 = Val('(if %s then 1 else 0)' % a.s, Q) if isinstance(a.t, TB) else a
            b2 = Val('(if %s then 1 else 0)' % b.s, Q) if isinstance(b.t, TB) else b
            return self.numcmp(a2, op, b2, node)
        return self.numcmp(a, op, b, node)

    def parts_of(self, node, env):
        if isinstance(node, (ast.Tuple, ast.List)) and node.elts:
            return [self.expr(x, env) for x in node.elts]
        if isinstance(node, ast.Name) and isinstance(env.get(node.id), tuple) and env[node.id][0] == 'parts':
            return [env[k] for k in env[node.id][1]]
        return None

    def numcmp(self, a, op, b, node):
        if isinstance(a.t, (TZ,)) and isinstance(b.t, (TZ, TNum)) or isinstance(a.t, TNum) and isinstance(b.t, TZ):
            x, y = self.coerce(a, Z), self.coerce(b, Z)
            tab = {ast.Eq: '(%s =? %s)%%Z', ast.NotEq: 'negb (%s =? %s)%%Z', ast.Lt: '(%s <? %s)%%Z',
                   ast.LtE: '(%s <=? %s)%%Z', ast.Gt: '(%s >? %s)%%Z', ast.GtE: '(%s >=? %s)%%Z'}
            if type(op) in tab:
                return tab[type(op)] % (paren(x), paren(y))
        if all(isinstance(t, (TQ, TZ, TNum)) for t in (a.t, b.t)):
            x, y = paren(self.coerce(a, Q)), paren(self.coerce(b, Q))
            tab = {ast.Eq: 'Qeq_bool %s %s', ast.NotEq: 'Qneq_bool %s %s', ast.Lt: 'Qlt_bool %s %s',
                   ast.LtE: 'Qle_bool %s %s'}
            if type(op) in tab:
                return tab[type(op)] % (x, y)
            if isinstance(op, ast.Gt): return 'Qlt_bool %s %s' % (y, x)
            if isinstance(op, ast.GtE): return 'Qle_bool %s %s' % (y, x)
        self.fail(node, 'comparison of %r and %r' % (a.t, b.t))

    def e_BinOp(self, e, env):
        a, b = self.expr(e.left, env), self.expr(e.right, env)
        op = type(e.op)
        names = {ast.Add: 'add', ast.Sub: 'sub', ast.Mult: 'mul', ast.Div: 'truediv', ast.FloorDiv: 'floordiv'}
        if isinstance(a.t, TObj) and op in names:
            return self.call_method(a, '__%s__' % names[op], [b], e)
        if isinstance(b.t, TObj) and op in names:
            return self.call_method(b, '__r%s__' % names[op], [a], e)
        if isinstance(a.t, TLst) and isinstance(b.t, TLst) and op is ast.Add:
            t = a.t if a.t.t is not None else b.t
            return Val('%s ++ %s' % (paren(a.s), paren(b.s)), t)
        if isinstance(a.t, TTup) and isinstance(b.t, TTup) and op is ast.Add:
            a, b = self.tuple_to_list(a), self.tuple_to_list(b)
            return Val('%s ++ %s' % (paren(a.s), paren(b.s)), TLst(self.join(a.t.t, b.t.t)))
        num = (TQ, TZ, TNum)
        if isinstance(a.t, num) and isinstance(b.t, num):
            if op is ast.Pow:
                if isinstance(e.right, ast.Constant) and e.right.value == 2:
                    x = paren(self.coerce(a, Q))
                    return Val('(%s * %s)' % (x, x), Q)
                if isinstance(e.right, ast.Constant) and e.right.value == 3:
                    x = paren(self.coerce(a, Q))
                    return Val('(%s * %s * %s)' % (x, x, x), Q)
                if isinstance(e.right, ast.Constant) and e.right.value == 0.5:
                    self.oracles.add('qsqrt')
                    return Val('qsqrt %s' % paren(self.coerce(a, Q)), Q)
                self.fail(e, 'power')
            allz = all(isinstance(t, (TZ, TNum)) for t in (a.t, b.t)) and any(isinstance(t, TZ) for t in (a.t, b.t))
            if allz and op in (ast.Add, ast.Sub, ast.Mult):
                sym = {ast.Add: '+', ast.Sub: '-', ast.Mult: '*'}[op]
                return Val('(%s %s %s)%%Z' % (paren(self.coerce(a, Z)), sym, paren(self.coerce(b, Z))), Z)
            if allz and op is ast.FloorDiv:
                return Val('(%s / %s)%%Z' % (paren(self.coerce(a, Z)), paren(self.coerce(b, Z))), Z)
            if allz and op is ast.Mod:
                return Val('(%s mod %s)%%Z' % (paren(self.coerce(a, Z)), paren(self.coerce(b, Z))), Z)
            if op is ast.Mod:
                return Val('py_mod %s %s' % (paren(self.coerce(a, Q)), paren(self.coerce(b, Q))), Q)
            both_num = isinstance(a.t, TNum) and isinstance(b.t, TNum)
            sym = {ast.Add: '+', ast.Sub: '-', ast.Mult: '*', ast.Div: '/'}.get(op)
            if sym is None:
                self.fail(e, 'operator %s' % op.__name__)
            rt = NUM if (both_num and op is not ast.Div) else Q
            return Val('(%s %s %s)' % (paren(self.coerce(a, Q)), sym, paren(self.coerce(b, Q))), rt)
        self.fail(e, 'operator %s on %r, %r' % (op.__name__, a.t, b.t))

    def e_Subscript(self, e, env):
        if isinstance(e.value, ast.Name) and isinstance(env.get(e.value.id), tuple) and env[e.value.id][0] == 'parts' \
                and isinstance(e.slice, ast.Constant) and isinstance(e.slice.value, int):
            return env[env[e.value.id][1][e.slice.value]]
        v = self.expr(e.value, env)
        sl = e.slice
        if isinstance(v.t, TTup):
            if isinstance(sl, ast.Constant) and isinstance(sl.value, int):
                n = len(v.t.ts)
                i = sl.value % n
                names = ['_'] * n
                names[i] = 'x_'
                if isinstance(e.value, ast.Tuple):
                    return self.expr(e.value.elts[i], env)
                if v.parts:
                    return v.parts[i]
                return Val("(let '(%s) := %s in x_)" % (', '.join(names), v.s), v.t.ts[i])
            lst = self.tuple_to_list(v)
            i = self.expr(sl, env)
            return Val('py_nth %s %s %s' % (paren(lst.s), paren(self.coerce(i, Z)), default_of(lst.t.t)), lst.t.t)
        if isinstance(v.t, TObj) and CLASSES.is_subclass(v.t.cls, 'Vector2D') or \
                isinstance(v.t, TObj) and CLASSES.is_subclass(v.t.cls, 'Vector3D'):
            if isinstance(sl, ast.Constant) and isinstance(sl.value, int):
                attr = ['x', 'y', 'z'][sl.value]
                return self.getattr_val(v, attr, e)
        if isinstance(v.t, TObj) and not isinstance(sl, ast.Slice) and CLASSES.find_member(v.t.cls, '__getitem__'):
            idx = self.expr(sl, env)
            if isinstance(idx.t, TNum):
                idx = Val(self.coerce(idx, Z), Z)
            return self.call_method(v, '__getitem__', [idx], e)
        if isinstance(v.t, TLst):
            if isinstance(sl, ast.Slice):
                lo = self.coerce(self.expr(sl.lower, env), Z) if sl.lower else None
                hi = self.coerce(self.expr(sl.upper, env), Z) if sl.upper else None
                if sl.step is not None:
                    self.fail(e, 'slice step')
                return Val('py_slice %s %s %s' % (paren(v.s), 'None' if lo is None else '(Some %s)' % paren(lo),
                                                  'None' if hi is None else '(Some %s)' % paren(hi)), v.t)
            i = self.expr(sl, env)
            return Val('py_nth %s %s %s' % (paren(v.s), paren(self.coerce(i, Z)), default_of(v.t.t)), v.t.t)
        self.fail(e, 'subscript of %r' % v.t)

    def e_ListComp(self, e, env):
        if len(e.generators) != 1:
            self.fail(e, 'nested comprehension')
        g = e.generators[0]
        it = self.iterable(g.iter, env)
        env_b = dict(env)
        pat = self.pattern(g.target, it.t.t, env_b)
        src = it.s
        for c in g.ifs:
            cs = self.cond(c, env_b)
            src = 'filter (fun %s => %s) %s' % (pat, cs, paren(src))
        # identity comprehension
        elt = self.expr(e.elt, env_b)
        t = Q if isinstance(elt.t, TNum) else elt.t
        if isinstance(e.elt, ast.Name) and isinstance(g.target, ast.Name) and e.elt.id == g.target.id:
            return Val(src, TLst(t))
        return Val('map (fun %s => %s) %s' % (pat, elt.s, paren(src)), TLst(t))

    e_GeneratorExp = e_ListComp

    def e_Attribute(self, e, env):
        # math.pi etc
        if isinstance(e.value, ast.Name) and e.value.id == 'math' and 'math' not in env:
            if e.attr == 'pi':
                self.oracles.add('qpi')
                return Val('qpi', Q)
            self.fail(e, 'math.%s' % e.attr)
        if isinstance(e.value, ast.Name) and e.value.id == 'self' and ('self.' + e.attr) in env:
            return env['self.' + e.attr]
        v = self.expr(e.value, env)
        if v.s == '<building>' and isinstance(v.t, TObj):
            return self.building_attr(v, e.attr, e, env)
        return self.getattr_val(v, e.attr, e)

    def building_attr(self, v, attr, node, env):
        """attribute of the object under construction (inside __init__): slots come from the
        assignments made so far, properties are inlined on those"""
        cls = v.t.cls
        found = CLASSES.find_member(cls, attr)
        if found is None or not isinstance(found[2], ast.FunctionDef):
            self.fail(node, 'read of unassigned self.%s' % attr)
        owner, mod, fn = found
        if method_kind(fn) != 'property':
            self.fail(node, 'bound method of the object under construction')
        sub = FuncTranslator(self.tr, 'inline', owner, mod, fn, [], cls)
        env_in = {k: val for k, val in env.items() if k == 'self' or k.startswith('self.')}
        sub.is_init = False
        sub.pass_no = 1
        sub.ret_seen = []
        sub.block(list(fn.body), dict(env_in))
        sub.ret_ty = sub.unify_returns(sub.ret_seen)
        sub.pass_no = 2
        body = sub.block(list(fn.body), dict(env_in))
        self.oracles.update(sub.oracles)
        return Val('(' + dead_let_elim(body) + ')', sub.ret_ty)

    def getattr_val(self, v, attr, node):
        if isinstance(v.t, TObj):
            cls = v.t.cls
            cfg = CLASSES.root_cfg(cls)
            attr = cfg.get('alias_slots', {}).get(attr, attr)
            for slot, acc, ty in cfg['fields']:
                if slot == attr:
                    if v.s == '<building>':
                        self.fail(node, 'read of unassigned self.%s' % attr)
                    return Val('%s %s' % (acc, paren(v.s)), ty)
            if attr in cfg.get('none_slots', ()):
                return Val('tt', NONE)
            if attr == '__class__':
                return Val('tt', TCls(cls))
            if attr.startswith('_') and not attr.startswith('__'):
                d = self.derived_slot(v, cls, attr, node)
                if d is not None:
                    return d
            found = CLASSES.find_member(cls, attr)
            if found is None:
                self.fail(node, 'no attribute %s on %s' % (attr, cls))
            owner, mod, fn = found
            if not isinstance(fn, ast.FunctionDef):
                self.fail(node, 'class attribute %s' % attr)
            if method_kind(fn) != 'property':
                self.fail(node, 'bound method value %s' % attr)
            # trivial getter?
            body = [s for s in fn.body if not (isinstance(s, ast.Expr) and isinstance(s.value, ast.Constant))]
            if len(body) == 1 and isinstance(body[0], ast.Return) and isinstance(body[0].value, ast.Attribute) \
                    and isinstance(body[0].value.value, ast.Name) and body[0].value.value.id == 'self':
                slot = cfg.get('alias_slots', {}).get(body[0].value.attr, body[0].value.attr)
                for s2, acc, ty in cfg['fields']:
                    if s2 == slot:
                        return Val('%s %s' % (acc, paren(v.s)), ty)
            name, rty, orcs = self.tr.instantiate('property', owner, mod, fn, [v.t], self_cls=cls)
            self.oracles.update(orcs)
            return Val('%s %s' % (' '.join([name] + orcs), paren(v.s)), rty)
        self.fail(node, 'attribute %s of %r' % (attr, v.t))

    def derived_slot(self, v, cls, attr, node):
        """a slot that __init__ fills eagerly from the constructor arguments
        (e.g. Arc2D._cos_a1 = math.cos(a1)): re-evaluate its defining expression on the fields"""
        found = CLASSES.find_member(cls, '__init__')
        if found is None:
            return None
        owner, mod, fn = found
        cfg = CLASSES.root_cfg(cls)
        env = {}
        target = None
        for st in fn.body:
            if isinstance(st, ast.Assign) and len(st.targets) == 1 and isinstance(st.targets[0], ast.Attribute) \
                    and isinstance(st.targets[0].value, ast.Name) and st.targets[0].value.id == 'self':
                slot = st.targets[0].attr
                if isinstance(st.value, ast.Name):
                    for s2, acc, ty in cfg['fields']:
                        if s2 == slot:
                            env[st.value.id] = Val('%s %s' % (acc, paren(v.s)), ty)
                if slot == attr:
                    target = st.value
        if target is None:
            return None
        if isinstance(target, ast.Constant) and target.value is None:
            return Val('tt', NONE)
        saved = self.mod
        self.mod = mod
        try:
            return self.expr(target, env)
        finally:
            self.mod = saved

    def call_method(self, recv, meth, args, node):
        cls = recv.t.cls
        if recv.s == '<building>':
            recv = Val('tt', TCls(cls))     # a method called on the half-built object may not read its fields
        found = CLASSES.find_member(cls, meth)
        if found is None:
            self.fail(node, 'no method %s on %s' % (meth, cls))
        owner, mod, fn = found
        if not isinstance(fn, ast.FunctionDef):
            self.fail(node, 'class attribute %s' % meth)
        kind = method_kind(fn)
        if kind == 'static':
            return self.emit_call('static', owner, mod, fn, args, node, cls)
        if kind == 'classmethod':
            return self.emit_call('classmethod', owner, mod, fn, args, node, cls)
        return self.emit_call('method', owner, mod, fn, [recv] + list(args), node, cls)

    def emit_call(self, kind, owner, mod, fn, args, node, self_cls=None, kwargs=None):
        # keyword arguments -> positional
        args = list(args)
        if kwargs:
            params = [a.arg for a in fn.args.args]
            if kind in ('init', 'classmethod'):
                params = params[1:]
            if kind == 'method':
                pass
            for k, v in kwargs.items():
                if k not in params:
                    self.fail(node, 'unknown keyword %s' % k)
                i = params.index(k)
                while len(args) < i:
                    args.append(Val('tt', TDefault()))
                if len(args) == i:
                    args.append(v)
                elif isinstance(args[i].t, TDefault):
                    args[i] = v
                else:
                    self.fail(node, 'duplicate argument')
        tys = [a.t for a in args]
        tys = [Q if isinstance(t, TNum) else t for t in tys]
        name, rty, orcs = self.tr.instantiate(kind, owner, mod, fn, tys, self_cls=self_cls)
        self.oracles.update(orcs)
        actual = [paren(self.coerce(a, Q) if isinstance(a.t, TNum) else a.s)
                  for a in args if not isinstance(a.t, (TNone, TCls, TStr, TDefault))]
        return Val(' '.join([name] + orcs + actual), rty)

    def construct(self, cls, args, node, kwargs=None):
        cfg = CLASSES.root_cfg(cls)
        if cfg.get('plain_attrs') or cls in ('Vector2D', 'Point2D', 'Vector3D', 'Point3D'):
            n = len(cfg['fields'])
            vals = [paren(self.coerce(a, Q)) for a in args]
            while len(vals) < n:
                vals.append('0')
            return Val('%s %s' % (cfg['ctor'], ' '.join(vals)), TObj(cls))
        found = CLASSES.find_member(cls, '__init__')
        if found is None:
            self.fail(node, 'no __init__ for %s' % cls)
        owner, mod, fn = found
        return self.emit_call('init', owner, mod, fn, args, node, cls, kwargs)

    def e_Call(self, e, env):
        f = e.func
        kwargs = {k.arg: self.expr(k.value, env) for k in e.keywords} if e.keywords else None
        if isinstance(f, ast.Attribute) and isinstance(f.value, ast.Name) and f.value.id == 'math' and 'math' not in env:
            args = [self.coerce(self.expr(a, env), Q) for a in e.args]
            tab = {'sqrt': 'qsqrt', 'cos': 'qcos', 'sin': 'qsin', 'tan': 'qtan', 'acos': 'qacos', 'atan2': 'qatan2',
                   'asin': 'qasin', 'atan': 'qatan'}
            if f.attr in tab:
                self.oracles.add(tab[f.attr])
                return Val('%s %s' % (tab[f.attr], ' '.join(paren(a) for a in args)), Q)
            if f.attr == 'fabs':
                return Val('Qabs %s' % paren(args[0]), Q)
            if f.attr == 'floor':
                return Val('Qfloor %s' % paren(args[0]), Z)
            self.fail(e, 'math.%s' % f.attr)
        if isinstance(f, ast.Attribute) and isinstance(f.value, ast.Name) and f.value.id == 'operator' and 'operator' not in env \
                and f.attr in ('truediv', 'mul', 'add', 'sub') and len(e.args) == 2 and not e.keywords:
            op = {'truediv': ast.Div(), 'mul': ast.Mult(), 'add': ast.Add(), 'sub': ast.Sub()}[f.attr]
            node = ast.BinOp(left=e.args[0], op=op, right=e.args[1])
            ast.copy_location(node, e)
            return self.e_BinOp(node, env)
        if any(isinstance(a, ast.Starred) for a in e.args):
            e = self.expand_starred(e, env)
            f = e.func
        if isinstance(f, ast.Name):
            args = [self.expr(a, env) for a in e.args]
            b = self.builtin(f.id, args, e, env)
            if b is not None:
                return b
            if f.id in env and isinstance(env[f.id], Val) and isinstance(env[f.id].t, TCls):
                return self.construct(env[f.id].t.cls, args, e, kwargs)
            r = self.tr.src.resolve(self.mod, f.id)
            if r is None:
                self.fail(e, 'unknown function %s' % f.id)
            if r[0] == 'class':
                return self.construct(r[1], args, e, kwargs)
            return self.emit_call('func', None, r[1], r[2], args, e, None, kwargs)
        if isinstance(f, ast.Attribute):
            # self.__class__(...)
            if f.attr == '__class__':
                recv = self.expr(f.value, env)
                if isinstance(recv.t, TObj):
                    return self.construct(recv.t.cls, [self.expr(a, env) for a in e.args], e, kwargs)
                self.fail(e, '__class__ value')
            recv = self.expr(f.value, env)
            args = [self.expr(a, env) for a in e.args]
            if isinstance(recv.t, TCls):
                cls = recv.t.cls
                found = CLASSES.find_member(cls, f.attr)
                if found is None:
                    self.fail(e, 'no member %s.%s' % (cls, f.attr))
                owner, mod, fn = found
                kind = method_kind(fn)
                if kind == 'static':
                    return self.emit_call('static', owner, mod, fn, args, e, cls, kwargs)
                if kind == 'classmethod':
                    return self.emit_call('classmethod', owner, mod, fn, args, e, cls, kwargs)
                # unbound method call  Class.method(obj, ...)
                return self.emit_call('method', owner, mod, fn, args, e, cls, kwargs)
            if isinstance(recv.t, TObj):
                if f.attr == 'duplicate' or f.attr == '__copy__':
                    pass
                return self.call_method(recv, f.attr, args, e) if not kwargs else \
                    self.call_method_kw(recv, f.attr, args, kwargs, e)
            if isinstance(recv.t, TLst) and f.attr == 'index':
                pass
            self.fail(e, 'method %s on %r' % (f.attr, recv.t))
        if isinstance(f, ast.Call) or True:
            # self.__class__(a, b)
            if isinstance(f, ast.Attribute):
                pass
        self.fail(e, 'call')

    def expand_starred(self, e, env):
        new_args = []
        for a in e.args:
            if isinstance(a, ast.Starred):
                v = a.value
                if isinstance(v, ast.Name) and isinstance(env.get(v.id), tuple) and env[v.id][0] == 'parts':
                    for i in range(len(env[v.id][1])):
                        new_args.append(ast.Subscript(value=ast.Name(id=v.id, ctx=ast.Load()),
                                                      slice=ast.Constant(value=i), ctx=ast.Load()))
                    continue
                if isinstance(v, ast.Tuple):
                    new_args.extend(v.elts)
                    continue
                self.fail(e, 'starred argument')
            else:
                new_args.append(a)
        e2 = ast.Call(func=e.func, args=new_args, keywords=e.keywords)
        return ast.copy_location(e2, e)

    def call_method_kw(self, recv, meth, args, kwargs, node):
        cls = recv.t.cls
        found = CLASSES.find_member(cls, meth)
        if found is None:
            self.fail(node, 'no method %s on %s' % (meth, cls))
        owner, mod, fn = found
        return self.emit_call('method', owner, mod, fn, [recv] + list(args), node, cls, kwargs)

    def builtin(self, name, args, node, env):
        if name == 'abs' and len(args) == 1:
            if isinstance(args[0].t, TObj):
                return self.call_method(args[0], '__abs__', [], node)
            return Val('Qabs %s' % paren(self.coerce(args[0], Q)), Q)
        if name in ('min', 'max') and len(args) >= 2:
            f = 'Qmin' if name == 'min' else 'Qmax'
            s = paren(self.coerce(args[0], Q))
            for a in args[1:]:
                s = '(%s %s %s)' % (f, s, paren(self.coerce(a, Q)))
            return Val(s, Q)
        if name in ('min', 'max') and len(args) == 1 and isinstance(args[0].t, TTup):
            f = 'Qmin' if name == 'min' else 'Qmax'
            parts = args[0].parts
            if parts is None:
                n = len(args[0].t.ts)
                nm = ['t%d_' % i for i in range(n)]
                inner = nm[0]
                for x in nm[1:]:
                    inner = '(%s %s %s)' % (f, inner, x)
                return Val("(let '(%s) := %s in %s)" % (', '.join(nm), args[0].s, inner), Q)
            s_ = paren(self.coerce(parts[0], Q))
            for a in parts[1:]:
                s_ = '(%s %s %s)' % (f, s_, paren(self.coerce(a, Q)))
            return Val(s_, Q)
        if name in ('min', 'max') and len(args) == 1 and isinstance(args[0].t, TLst) and isinstance(args[0].t.t, (TQ, TNum)):
            return Val('py_%s_list %s' % (name, paren(args[0].s)), Q)
        if name == 'float' and len(args) == 1:
            return Val(self.coerce(args[0], Q), Q)
        if name == 'round' and len(args) == 1:
            return Val('py_round %s' % paren(self.coerce(args[0], Q)), Z)
        if name == 'round' and len(args) == 2 and args[1].s.strip('()') in ('0', '0%Z'):
            return Val('inject_Z (py_round %s)' % paren(self.coerce(args[0], Q)), Q)
        if name == 'len' and len(args) == 1:
            if isinstance(args[0].t, TLst):
                return Val('py_len %s' % paren(args[0].s), Z)
            if isinstance(args[0].t, TTup):
                return Val('%d%%Z' % len(args[0].t.ts), Z)
            if isinstance(args[0].t, TObj):
                return self.call_method(args[0], '__len__', [], node)
        if name == 'sum' and len(args) == 1 and isinstance(args[0].t, TLst):
            if isinstance(args[0].t.t, (TQ, TNum)):
                return Val('Qsum %s' % paren(args[0].s), Q)
        if name in ('tuple', 'list') and len(args) == 1:
            if isinstance(args[0].t, TLst): return args[0]
            if isinstance(args[0].t, TTup): return self.tuple_to_list(args[0])
        if name == 'isinstance':
            sc = self.static_cond(node, env)
            if sc is not None:
                return Val('true' if sc else 'false', B)
        if name in ('reversed',) and len(args) == 1 and isinstance(args[0].t, TLst):
            return Val('rev %s' % paren(args[0].s), args[0].t)
        if name in ('reversed',) and len(args) == 1 and isinstance(args[0].t, TTup):
            l_ = self.tuple_to_list(args[0])
            return Val('rev %s' % paren(l_.s), l_.t)
        if name == 'bool' and len(args) == 1:
            return Val(self.truthy(args[0], node), B)
        return None


# -------------------------------------------------------------------- driver
HEADER = '''(* GENERATED by tools/py2coq.py from the working tree of /repo -- do not edit.
   Source of truth: %(root)s/ladybug_geometry.  Regenerated on every check run. *)
From LBG Require Import Base%(imports)s.
Open Scope Q_scope.

(* the runtime's transcendental functions (math.sqrt/cos/sin/...) are explicit
   parameters qsqrt/qcos/... of every definition that (transitively) uses them;
   theorems quantify over them with pointwise hypotheses, DESIGN.md section 2 *)

'''


def generate(root, layers):
    """layers: list of (file stem, [specs]).  returns {stem: text}, failures"""
    CLASSES.cfg.clear(); CLASSES.defs.clear(); CLASSES.bases.clear()
    configure_classes()
    src = Source(root)
    tr = Translator(src)
    files = {}
    prev = []
    for stem, specs in layers:
        start = len(tr.out)
        for sp in specs:
            n0 = len(tr.sigs)
            tr.request(sp)
            for sg in tr.sigs[n0:]:
                sg['stem'] = stem
        body = ''.join(t + '\n' for _, t in tr.out[start:])
        imports = ''.join(' ' + p for p in prev)
        files[stem] = HEADER % dict(root=root, imports=imports) + body
        prev.append(stem)
    SIGNATURES[:] = tr.sigs
    return files, tr.failed


SIGNATURES = []


