(* C02_planes.v -- transforms of Plane (generated from the source): for a plane with an orthonormal frame, every transform returns a
   plane with an orthonormal frame whose normal and x axis are the images of the old ones under the linear part, whose origin is the
   image of the old origin, and which contains the image of every point of the old plane. *)
From LBG Require Import Base QGeom G0_vec G1_shapes C02_kernels C06_plane.
Open Scope Q_scope.

Definition on_plane (p : PlaneR) (q : V3) : Prop := dot3 (pl_n p) (sub3 q (pl_o p)) == 0.

Section WithSqrt.
Variable qsqrt : Q -> Q.
Hypothesis sqrt_proper : Proper (Qeq ==> Qeq) qsqrt.
Hypothesis sqrt_one : qsqrt 1 == 1.

Lemma normalize_unit_id v : unit3 v -> Vector3D_normalize qsqrt v =3= v.
Proof.
  intros U. apply normalize_of_unit. unfold unit3, dot3 in U. rewrite U. exact sqrt_one.
Qed.

(* the constructor used by every transform *)
Lemma plane_init_x_frame n o x : unit3 n -> unit3 x -> dot3 n x == 0 ->
  let p := Plane_init_x qsqrt n o x in
  pl_n p =3= n /\ pl_x p =3= x /\ pl_o p = o /\ frame_ok p.
Proof.
  intros Un Ux D. cbv zeta. unfold Plane_init_x. cbv zeta. cbn [pl_n pl_x pl_o pl_y pl_k].
  pose proof (normalize_unit_id n Un) as En. pose proof (normalize_unit_id x Ux) as Ex.
  split; [exact En|]. split; [exact Ex|]. split; [reflexivity|].
  unfold frame_ok. cbn [pl_n pl_x pl_o pl_y pl_k].
  split; [rewrite En; exact Un|]. split; [rewrite Ex; exact Ux|]. split; [rewrite En, Ex; exact D|].
  split; [unfold Vector3D_cross, cross3, v3eq; cbn [v3x v3y v3z]; repeat split; ring | unfold Vector3D_dot, dot3; reflexivity].
Qed.

(* generic: a linear part L that preserves inner products, with the point map T *)
Lemma carried (L : V3 -> V3) (T : V3 -> V3) (p p' : PlaneR) :
  (forall u v, dot3 (L u) (L v) == dot3 u v) -> (forall q o, sub3 (T q) (T o) =3= L (sub3 q o)) ->
  pl_n p' =3= L (pl_n p) -> pl_o p' = T (pl_o p) ->
  forall q, on_plane p q -> on_plane p' (T q).
Proof.
  intros HD HT En Eo q H. unfold on_plane in *. rewrite Eo, En, HT, HD. exact H.
Qed.

(* ---- move *)
Theorem plane_move_frame p m : frame_ok p ->
  let p' := Plane_move qsqrt p m in
  frame_ok p' /\ pl_n p' =3= pl_n p /\ pl_x p' =3= pl_x p /\ pl_o p' = Point3D_move (pl_o p) m /\
  (forall q, on_plane p q -> on_plane p' (Point3D_move q m)).
Proof.
  intros (Un & Ux & D & _). cbv zeta. unfold Plane_move.
  destruct (plane_init_x_frame (pl_n p) (Point3D_move (pl_o p) m) (pl_x p) Un Ux D) as (En & Ex & Eo & F).
  split; [exact F|]. split; [exact En|]. split; [exact Ex|]. split; [exact Eo|].
  apply (carried (fun v => v) (fun q => Point3D_move q m) p); try assumption; try reflexivity.
  intros q o. unfold Point3D_move, sub3, v3eq. cbn [v3x v3y v3z]. repeat split; ring.
Qed.

(* ---- scale (the frame is kept, the origin is scaled) *)
Theorem plane_scale_frame p k o : frame_ok p ->
  let p' := Plane_scale qsqrt p k o in
  frame_ok p' /\ pl_n p' =3= pl_n p /\ pl_x p' =3= pl_x p /\ pl_o p' = Point3D_scale (pl_o p) k o /\
  (forall q, on_plane p q -> on_plane p' (Point3D_scale q k o)).
Proof.
  intros (Un & Ux & D & _). cbv zeta. unfold Plane_scale.
  destruct (plane_init_x_frame (pl_n p) (Point3D_scale (pl_o p) k o) (pl_x p) Un Ux D) as (En & Ex & Eo & F).
  split; [exact F|]. split; [exact En|]. split; [exact Ex|]. split; [exact Eo|].
  intros q H. unfold on_plane in *. rewrite Eo, En.
  assert (E : sub3 (Point3D_scale q k o) (Point3D_scale (pl_o p) k o) =3= smul3 k (sub3 q (pl_o p))).
  { unfold Point3D_scale, Vector3D_op_add, Vector3D_op_mul, Vector3D_op_sub, sub3, smul3, v3eq. cbn [v3x v3y v3z]. repeat split; ring. }
  rewrite E. unfold dot3, smul3 in *. cbn [v3x v3y v3z] in *.
  transitivity (k * (v3x (pl_n p) * v3x (sub3 q (pl_o p)) + v3y (pl_n p) * v3y (sub3 q (pl_o p)) + v3z (pl_n p) * v3z (sub3 q (pl_o p)))); [ring|].
  rewrite H. ring.
Qed.

(* ---- reflect *)
Theorem plane_reflect_frame p n o : frame_ok p -> dot3 n n == 1 ->
  let p' := Plane_reflect qsqrt p n o in
  frame_ok p' /\ pl_n p' =3= Vector3D__reflect (pl_n p) n /\ pl_x p' =3= Vector3D__reflect (pl_x p) n /\
  pl_o p' = Point3D_reflect (pl_o p) n o /\
  (forall q, on_plane p q -> on_plane p' (Point3D_reflect q n o)).
Proof.
  intros (Un & Ux & D & _) Hn. cbv zeta. unfold Plane_reflect, Vector3D_reflect.
  assert (Un' : unit3 (Vector3D__reflect (pl_n p) n)) by (unfold unit3; rewrite (refl3_dot n Hn); exact Un).
  assert (Ux' : unit3 (Vector3D__reflect (pl_x p) n)) by (unfold unit3; rewrite (refl3_dot n Hn); exact Ux).
  assert (D' : dot3 (Vector3D__reflect (pl_n p) n) (Vector3D__reflect (pl_x p) n) == 0) by (rewrite (refl3_dot n Hn); exact D).
  destruct (plane_init_x_frame _ (Point3D_reflect (pl_o p) n o) _ Un' Ux' D') as (En & Ex & Eo & F).
  split; [exact F|]. split; [exact En|]. split; [exact Ex|]. split; [exact Eo|].
  apply (carried (fun v => Vector3D__reflect v n) (fun q => Point3D_reflect q n o) p); try assumption.
  - apply (refl3_dot n Hn).
  - intros q o'. unfold Point3D_reflect, Vector3D__reflect, Vector3D_op_add, Vector3D_op_sub, sub3, v3eq. cbv zeta. cbn [v3x v3y v3z]. repeat split; ring.
Qed.

(* ---- rotate about an axis *)
Theorem plane_rotate_frame qcos qsin p axis a o : frame_ok p ->
  qcos a * qcos a + qsin a * qsin a == 1 ->
  qsqrt (v3x axis * v3x axis + v3y axis * v3y axis + v3z axis * v3z axis)
    * qsqrt (v3x axis * v3x axis + v3y axis * v3y axis + v3z axis * v3z axis)
    == v3x axis * v3x axis + v3y axis * v3y axis + v3z axis * v3z axis ->
  ~ v3x axis * v3x axis + v3y axis * v3y axis + v3z axis * v3z axis == 0 ->
  let R := fun v => Vector3D__rotate qsqrt qcos qsin v axis a in
  let p' := Plane_rotate qsqrt qcos qsin p axis a o in
  frame_ok p' /\ pl_n p' =3= R (pl_n p) /\ pl_x p' =3= R (pl_x p) /\
  pl_o p' = Point3D_rotate qsqrt qcos qsin (pl_o p) axis a o /\
  (forall q, on_plane p q -> on_plane p' (Point3D_rotate qsqrt qcos qsin q axis a o)).
Proof.
  intros (Un & Ux & D & _) H1 H2 H3. cbv zeta. unfold Plane_rotate, Vector3D_rotate.
  pose proof (rot3_dot qsqrt qcos qsin axis a H1 H2 H3) as RD.
  assert (Un' : unit3 (Vector3D__rotate qsqrt qcos qsin (pl_n p) axis a)) by (unfold unit3; rewrite RD; exact Un).
  assert (Ux' : unit3 (Vector3D__rotate qsqrt qcos qsin (pl_x p) axis a)) by (unfold unit3; rewrite RD; exact Ux).
  assert (D' : dot3 (Vector3D__rotate qsqrt qcos qsin (pl_n p) axis a) (Vector3D__rotate qsqrt qcos qsin (pl_x p) axis a) == 0) by (rewrite RD; exact D).
  destruct (plane_init_x_frame _ (Point3D_rotate qsqrt qcos qsin (pl_o p) axis a o) _ Un' Ux' D') as (En & Ex & Eo & F).
  split; [exact F|]. split; [exact En|]. split; [exact Ex|]. split; [exact Eo|].
  apply (carried (fun v => Vector3D__rotate qsqrt qcos qsin v axis a) (fun q => Point3D_rotate qsqrt qcos qsin q axis a o) p); try assumption.
  intros q o'. unfold Point3D_rotate, Vector3D__rotate, Vector3D_op_add, Vector3D_op_sub, sub3, v3eq, Qdiv. cbv zeta. cbn [v3x v3y v3z]. repeat split; ring.
Qed.

(* ---- rotate about the world Z axis *)
Lemma rotxy_dot qcos qsin a u v : qcos a * qcos a + qsin a * qsin a == 1 ->
  dot3 (Vector3D_rotate_xy qcos qsin u a) (Vector3D_rotate_xy qcos qsin v a) == dot3 u v.
Proof.
  intros H. unfold Vector3D_rotate_xy, Vector2D__rotate_2, dot3. cbv zeta. cbn [v2x v2y v3x v3y v3z].
  set (c := qcos a) in *. set (s := qsin a) in *.
  transitivity ((c * c + s * s) * (v3x u * v3x v + v3y u * v3y v) + v3z u * v3z v); [ring|]. rewrite H. ring.
Qed.

Theorem plane_rotate_xy_frame qcos qsin p a o : frame_ok p -> qcos a * qcos a + qsin a * qsin a == 1 ->
  let R := fun v => Vector3D_rotate_xy qcos qsin v a in
  let p' := Plane_rotate_xy qsqrt qcos qsin p a o in
  frame_ok p' /\ pl_n p' =3= R (pl_n p) /\ pl_x p' =3= R (pl_x p) /\ pl_o p' = Point3D_rotate_xy qcos qsin (pl_o p) a o /\
  (forall q, on_plane p q -> on_plane p' (Point3D_rotate_xy qcos qsin q a o)).
Proof.
  intros (Un & Ux & D & _) H1. cbv zeta. unfold Plane_rotate_xy.
  pose proof (rotxy_dot qcos qsin a) as RD.
  assert (Un' : unit3 (Vector3D_rotate_xy qcos qsin (pl_n p) a)) by (unfold unit3; rewrite RD by exact H1; exact Un).
  assert (Ux' : unit3 (Vector3D_rotate_xy qcos qsin (pl_x p) a)) by (unfold unit3; rewrite RD by exact H1; exact Ux).
  assert (D' : dot3 (Vector3D_rotate_xy qcos qsin (pl_n p) a) (Vector3D_rotate_xy qcos qsin (pl_x p) a) == 0) by (rewrite RD by exact H1; exact D).
  destruct (plane_init_x_frame _ (Point3D_rotate_xy qcos qsin (pl_o p) a o) _ Un' Ux' D') as (En & Ex & Eo & F).
  split; [exact F|]. split; [exact En|]. split; [exact Ex|]. split; [exact Eo|].
  apply (carried (fun v => Vector3D_rotate_xy qcos qsin v a) (fun q => Point3D_rotate_xy qcos qsin q a o) p); try assumption.
  - intros u v. apply RD. exact H1.
  - intros q o'. unfold Point3D_rotate_xy, Vector3D_rotate_xy, Vector2D__rotate_2, Vector3D_op_add, Vector3D_op_sub, sub3, v3eq. cbv zeta.
    cbn [v2x v2y v3x v3y v3z]. repeat split; ring.
Qed.

(* ---- flip *)
Theorem plane_flip_frame p : frame_ok p ->
  let p' := Plane_flip qsqrt p in
  frame_ok p' /\ pl_n p' =3= smul3 (-1) (pl_n p) /\ pl_x p' =3= pl_x p /\ pl_o p' = pl_o p /\ (forall q, on_plane p q -> on_plane p' q).
Proof.
  intros (Un & Ux & D & _). cbv zeta. unfold Plane_flip, Vector3D_reverse.
  assert (EN : Vector3D_op_neg (pl_n p) =3= smul3 (-1) (pl_n p)) by (unfold Vector3D_op_neg, smul3, v3eq; cbn [v3x v3y v3z]; repeat split; ring).
  assert (Un' : unit3 (Vector3D_op_neg (pl_n p))).
  { unfold unit3 in *. unfold dot3, Vector3D_op_neg in *. cbn [v3x v3y v3z]. rewrite <- Un. ring. }
  assert (D' : dot3 (Vector3D_op_neg (pl_n p)) (pl_x p) == 0).
  { unfold dot3, Vector3D_op_neg in *. cbn [v3x v3y v3z].
    transitivity (- (v3x (pl_n p) * v3x (pl_x p) + v3y (pl_n p) * v3y (pl_x p) + v3z (pl_n p) * v3z (pl_x p))); [ring|]. rewrite D. ring. }
  destruct (plane_init_x_frame _ (pl_o p) _ Un' Ux D') as (En & Ex & Eo & F).
  split; [exact F|]. split; [rewrite En; exact EN|]. split; [exact Ex|]. split; [exact Eo|].
  intros q H. unfold on_plane in *. rewrite Eo, En, EN. unfold dot3, smul3 in *. cbn [v3x v3y v3z] in *.
  transitivity (- (v3x (pl_n p) * v3x (sub3 q (pl_o p)) + v3y (pl_n p) * v3y (sub3 q (pl_o p)) + v3z (pl_n p) * v3z (sub3 q (pl_o p)))); [ring|].
  rewrite H. ring.
Qed.
End WithSqrt.
