#!/usr/bin/env python3
"""Regenerate MANIFEST.json from tools/manifest_data.py (keeps it valid at all times)."""
import json, os, sys
sys.path.insert(0, os.path.dirname(os.path.abspath(__file__)))
import manifest_data as D
V = os.path.dirname(os.path.dirname(os.path.abspath(__file__)))
props = [json.loads(l) for l in open(os.path.join(V, 'properties.jsonl'))]
checks = []
for p in props:
    pid = p['id']
    if pid not in D.CLAIMED:
        continue
    c = D.CLAIMED[pid]
    checks.append({
        'property_id': pid,
        'quick_cmd': './check %s --tier quick' % pid,
        'thorough_cmd': './check %s --tier thorough' % pid,
        'evidence_file': '/verif/evidence/%s.json' % pid,
        'replay_cmd_template': './check %s --replay {path}' % pid,
        'engine': 'coq-proof',
        'level_claimed': {'category': 'proof', 'text': c['text'], 'design_ref': 'DESIGN.md section 7, block %s' % pid},
        'level_note': c['note'],
        'technique': c['technique'],
    })
na = [{'property_id': p['id'], 'reason': D.NOT_APPLICABLE.get(p['id'], 'check not built yet (work in progress); see DESIGN.md section 7')}
      for p in props if p['id'] not in D.CLAIMED]
m = {
    'version': 1,
    'setup_cmd': './setup.sh',
    'hooks': {'guard': 'LBG_VERIF', 'enable': 'no source hooks are needed: the checks import /repo directly and call private helpers',
              'baseline_off_cmd': 'cd /repo && /venv/bin/python -m pytest -ra -q -p no:cacheprovider --timeout=900',
              'source_commits': [], 'add_only': True},
    'engines': [{'name': 'coq-proof', 'path': '/verif/check', 'serves_properties': sorted(D.CLAIMED),
                 'kind_free_text': 'Coq 8.16.1 theorems about Gallina models regenerated from the Python source by tools/py2coq.py '
                                   '(+ hand models with vm_compute correspondence), exact-rational search for failing inputs'}],
    'checks': checks,
    'notes': D.NOTES,
    'not_applicable': na,
}
json.dump(m, open(os.path.join(V, 'MANIFEST.json'), 'w'), indent=1)
print('MANIFEST.json: %d checks, %d not claimed' % (len(checks), len(na)))
