(* C19: Polygon2D.offset as generated from the source (gen/G11_sub.v).  (A) the vector by which a vertex is moved puts it at
   signed distance d from both adjacent edges; (B) the generated method moves every vertex of a counter-clockwise polygon by
   exactly that vector.  cos / sin / sqrt / acos are the runtime's: explicit parameters with pointwise hypotheses. *)
From LBG Require Import Base QGeom ListCyc G0_vec G1_shapes G2_inter G3_poly G4_face G5_bound G6_tri G7_contain G8_curve G9_clean G10_grid G11_sub
  C02_kernels C01_area SubOffset C19_sub.
Open Scope Q_scope.

Section Vertex.
Variables (qsqrt qcos qsin : Q -> Q).
Hypothesis Psqrt : Proper (Qeq ==> Qeq) qsqrt.
Variables (v1 v2 : V2) (a d : Q).
Let c := qcos (- a).
Let s := qsin a.
Hypothesis Hneg : qsin (- a) == - s.               (* sin is odd at the half angle *)
Hypothesis Hcs : c * c + s * s == 1.               (* cos^2 + sin^2 = 1 at the half angle *)
Hypothesis Hs : ~ s == 0.
Let r1 := qsqrt (Vector2D_magnitude_squared v1).
Hypothesis Hr1 : r1 * r1 == dot2 v1 v1.            (* the root that normalize() takes *)
Hypothesis Hr1nz : ~ r1 == 0.
Variable mu : Q.
Hypothesis Hmu : 0 < mu.
(* the half angle is half the clockwise angle from v1 to v2: turning v1 clockwise by 2a gives the direction of v2 *)
Hypothesis Hv2 : v2 =2= smul2 mu (rotm c s (rotm c s v1)).

Definition move_vec : V2 :=
  Vector2D_op_mul (Vector2D_normalize qsqrt (Vector2D_rotate qcos qsin v1 (- a))) (d / qsin a).

Lemma rotated_is_rotm : Vector2D_rotate qcos qsin v1 (- a) =2= rotm c s v1.
Proof.
  unfold Vector2D_rotate, Vector2D__rotate, rotm. cbv zeta. fold c. split; vred; rewrite Hneg; ring.
Qed.

Lemma rotated_norm : Vector2D_magnitude_squared (Vector2D_rotate qcos qsin v1 (- a)) == Vector2D_magnitude_squared v1.
Proof.
  unfold Vector2D_magnitude_squared, Vector2D_rotate, Vector2D__rotate. cbv zeta. fold c. vred. rewrite Hneg.
  set (x := v2x v1). set (y := v2y v1).
  transitivity ((c * c + s * s) * (x * x + y * y)); [ring| rewrite Hcs; ring].
Qed.

Theorem move_vec_distances :
  det2 move_vec v1 == d * r1 /\ det2 v2 move_vec == d * (mu * r1) /\ (mu * r1) * (mu * r1) == dot2 v2 v2.
Proof.
  assert (ER : qsqrt (Vector2D_magnitude_squared (Vector2D_rotate qcos qsin v1 (- a))) == r1).
  { unfold r1. apply Psqrt. apply rotated_norm. }
  unfold move_vec, Vector2D_normalize, Vector2D_magnitude, Vector2D_op_abs. cbv zeta.
  fold (Vector2D_magnitude_squared (Vector2D_rotate qcos qsin v1 (- a))).
  set (d0 := qsqrt (Vector2D_magnitude_squared (Vector2D_rotate qcos qsin v1 (- a)))) in *.
  assert (D0 : Qeq_bool d0 0 = false) by (apply Qeq_bool_false_iff; rewrite ER; exact Hr1nz).
  rewrite D0. destruct rotated_is_rotm as [Rx Ry]. destruct Hv2 as [V2x V2y].
  set (w := Vector2D_rotate qcos qsin v1 (- a)) in *.
  unfold Vector2D_op_mul, det2, dot2, smul2, rotm in *. vred. fold s.
  set (x := v2x v1) in *. set (y := v2y v1) in *.
  assert (S1 : ~ d0 == 0) by (rewrite ER; exact Hr1nz).
  assert (N : x * x + y * y == r1 * r1) by (rewrite Hr1; reflexivity).
  repeat split.
  - rewrite Rx, Ry.
    transitivity (d * (x * x + y * y) / d0); [field; split; assumption|]. rewrite N, ER. field. exact Hr1nz.
  - rewrite V2x, V2y, Rx, Ry.
    transitivity (d * mu * ((c * c + s * s) * (x * x + y * y)) / d0); [field; split; assumption|]. rewrite Hcs, N, ER. field. exact Hr1nz.
  - rewrite V2x, V2y.
    transitivity (mu * mu * ((c * c + s * s) * (c * c + s * s) * (x * x + y * y))); [rewrite Hcs, N; ring| ring].
Qed.
End Vertex.

(* ---------------------------------------------------------------- (B) the generated method, vertex by vertex *)
Section Method.
Variables (qsqrt qcos qsin qacos : Q -> Q) (qpi : Q).

(* the vector the source computes for vertex number i of the (counter-clockwise) loop L *)
Definition off_angle (L : list V2) (i : Z) (pt : V2) : Q :=
  let v1 := Point2D_op_sub (py_nth L (i - 1)%Z (mkV2 0 0)) pt in
  let end_i := if negb (i =? py_len L - 1)%Z then (i + 1)%Z else 0%Z in
  let v2 := Point2D_op_sub (py_nth L end_i (mkV2 0 0)) pt in
  let ang := Vector2D_angle_clockwise qsqrt qacos qpi v1 v2 / 2 in
  if Qeq_bool ang 0 then qpi / 2 else ang.

Definition off_vec (L : list V2) (d : Q) (i : Z) (pt : V2) : V2 :=
  move_vec qsqrt qcos qsin (Point2D_op_sub (py_nth L (i - 1)%Z (mkV2 0 0)) pt) (off_angle L i pt) d.

Lemma fold_snoc_map {A B} (F : A -> B) l : forall acc, fold_left (fun (acc : list B) x => acc ++ [F x]) l acc = acc ++ map F l.
Proof. induction l as [|x r IH]; intros acc; cbn [fold_left map]; [rewrite app_nil_r; reflexivity| rewrite IH, <- app_assoc; reflexivity]. Qed.

Lemma fold_left_ext2 {A B} (f g : A -> B -> A) l a : (forall a x, f a x = g a x) -> fold_left f l a = fold_left g l a.
Proof. intros H. revert a. induction l as [|x r IH]; intros a; [reflexivity|]. cbn [fold_left]. rewrite H. apply IH. Qed.

Lemma map_snd_enum {A} (l : list A) : forall k, map (fun '(i, pt) => pt) (enum_from k l) = l.
Proof. induction l as [|x r IH]; intros k; cbn [enum_from map]; [reflexivity| rewrite IH; reflexivity]. Qed.

Lemma filter_all {A} (f : A -> bool) l : (forall x, In x l -> f x = true) -> filter f l = l.
Proof.
  induction l as [|x r IH]; intros H; [reflexivity|]. cbn [filter]. rewrite (H x (or_introl eq_refl)).
  rewrite IH; [reflexivity| intros y Hy; apply H; right; exact Hy].
Qed.

Lemma combine_enum {A B C} (G : Z * A -> B) (M : A * B -> C) (l : list A) : forall k,
  map M (combine l (map G (enum_from k l))) = map (fun ip => M (snd ip, G ip)) (enum_from k l).
Proof. induction l as [|x r IH]; intros k; cbn [enum_from map combine]; [reflexivity| rewrite IH; reflexivity]. Qed.

(* for a counter-clockwise loop without repeated consecutive vertices the generated Polygon2D.offset moves vertex i by off_vec *)
Theorem offset_moves_each_vertex (self : Polygon2R) (d : Q) :
  let L := pg_vertices self in
  ~ d == 0 -> Polygon2D_is_clockwise self = false -> (3 <= py_len L)%Z ->
  (forall ip, In ip (py_enumerate L) -> Vector2D_op_eq (snd ip) (py_nth L (fst ip - 1)%Z (mkV2 0 0)) = false) ->
  pg_vertices (Polygon2D_offset qsqrt qcos qsin qacos qpi self d)
  = map (fun ip => Point2D_move (snd ip) (off_vec L d (fst ip) (snd ip))) (py_enumerate L).
Proof.
  intros L Hd Hccw Hlen Hnodup. unfold Polygon2D_offset. cbv zeta.
  assert (E0 : Qeq_bool d 0 = false) by (apply Qeq_bool_false_iff; exact Hd). rewrite E0, Hccw. cbn [negb]. fold L.
  assert (EF : map (fun '(i, pt) => pt) (filter (fun '(i, pt) => negb (Vector2D_op_eq pt (py_nth L (i - 1)%Z (mkV2 0 0)))) (py_enumerate L)) = L).
  { rewrite filter_all; [apply map_snd_enum|]. intros [i pt] Hin. pose proof (Hnodup (i, pt) Hin) as X. cbn [fst snd] in X. rewrite X. reflexivity. }
  rewrite EF. assert (E3 : (py_len L <? 3)%Z = false) by (apply Z.ltb_ge; exact Hlen). rewrite E3.
  rewrite (fold_left_ext2 _ (fun (acc : list V2) ip => acc ++ [off_vec L d (fst ip) (snd ip)])).
  - rewrite fold_snoc_map. cbn [app]. unfold Polygon2D_op_init, Base2DIn2D__check_vertices_input. cbv zeta. cbn [pg_vertices].
    unfold py_enumerate. rewrite (combine_enum (fun ip => off_vec L d (fst ip) (snd ip)) (fun '(pt, m_vec) => Point2D_move pt m_vec)). reflexivity.
  - intros acc [i pt]. cbn [fst snd]. unfold off_vec, off_angle, move_vec. cbv zeta. reflexivity.
Qed.
End Method.

(* ---- LineSegment3D.from_sdl (generated; used to lay out the sub-rectangles): start point s, direction d scaled to the length L *)
Theorem from_sdl_spec qsqrt s d L :
  let m := v3x d * v3x d + v3y d * v3y d + v3z d * v3z d in
  qsqrt m * qsqrt m == m -> ~ m == 0 ->
  let sg := LineSegment3D_from_sdl qsqrt s d L in
  lr3p sg = s /\ dot3 (lr3v sg) (lr3v sg) == L * L /\ cross3 (lr3v sg) d =3= mkV3 0 0 0 /\ dot3 (lr3v sg) d == L * qsqrt m.
Proof.
  cbv zeta. intros Hr Hm. unfold LineSegment3D_from_sdl, LineSegment3D_op_init, Vector3D_op_truediv, Vector3D_op_mul, Vector3D_magnitude, Vector3D_op_abs.
  cbv zeta. cbn [lr3p lr3v]. set (m := v3x d * v3x d + v3y d * v3y d + v3z d * v3z d) in *. set (r := qsqrt m) in *.
  assert (Hq : ~ r == 0) by (intro E; apply Hm; rewrite <- Hr, E; ring).
  split; [reflexivity|]. split; [|split].
  - unfold dot3. cbn [v3x v3y v3z].
    transitivity (L * L * m / (r * r)); [unfold m; field; exact Hq|]. rewrite Hr. field. exact Hm.
  - unfold cross3, v3eq. cbn [v3x v3y v3z]. repeat split; field; exact Hq.
  - unfold dot3. cbn [v3x v3y v3z]. transitivity (L * m / r); [unfold m; field; exact Hq|]. rewrite <- Hr. field. exact Hq.
Qed.
