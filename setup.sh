#!/bin/sh
# Build the whole framework from files on disk only (offline): regenerate the Coq
# models from /repo, regenerate _CoqProject/Makefile, full .vo build.
set -e
cd "$(dirname "$0")"
export PYTHONHASHSEED=0 PYTHONPATH=/repo
/venv/bin/python tools/regen.py /repo coq/gen || true
cd coq
( echo "-Q . LBG"; ls lib/*.v gen/*.v model/*.v proofs/*.v props/*.v findings/*.v 2>/dev/null || true ) > _CoqProject
coq_makefile -f _CoqProject -o Makefile > /dev/null
# findings/ may legitimately fail to build (a recorded defect that no longer reproduces): -k
timeout 3000 make -k -j${VERIF_JOBS:-16} > ../work_setup.log 2>&1 || true
tail -3 ../work_setup.log
