"""C12  closest points lie on the object and minimise distance; pole of inaccessibility."""
import math
from fractions import Fraction
from .. import core, gens as G, exact as X, build as Bd
from ..core import q, v2, v3, F
from ..build import P2, V2, P3, V3
from ladybug_geometry.geometry2d import Ray2D, LineSegment2D, Arc2D, Polygon2D
from ladybug_geometry.geometry3d import Ray3D, LineSegment3D, Plane, Face3D, Arc3D

RULE = ('random objects x query points (inside, outside, beyond ends, on the object); optimality against the exact clamped '
        'orthogonal projection and 200 samples along the object; non-trivial = query not on the object; distinct by '
        '(family, clamp region / arc region)')
ASSUMPTIONS = ['segment pairs for the segment-to-segment routines do not cross (as documented)',
               'pole of inaccessibility is checked one-sidedly against an independent branch-and-bound search (1e-3) whose best point is measured exactly, precision 0.01']
TRUSTED = ['theorems are in squared-distance form; sqrt monotone and non-negative is the only fact needed to transfer them']


def check_closest(ctx, fam, obj_desc, qp, res, on_obj_sqd, samples_sqd, best_sqd, sc, region):
    """res: returned point (exact tuple); on_obj_sqd: squared distance from res to the object;
    samples_sqd: squared distances query->samples; best_sqd: exact optimum (or None)"""
    desc = dict(obj_desc, query=[float(c) for c in qp], result=[float(c) for c in res])
    d2 = X.sqd(qp, res)
    if float(on_obj_sqd) > (1e-7 * sc) ** 2:
        ctx.violation(fam + ':off_object:' + region, 'closest point is %.3g away from the object' % math.sqrt(float(on_obj_sqd)), desc)
        return
    tol = 1e-9 * sc * sc + 1e-8 * float(d2)
    if best_sqd is not None and float(d2) > float(best_sqd) + tol:
        ctx.violation(fam + ':not_minimal:' + region, 'distance %.9g but exact optimum %.9g' % (
            math.sqrt(float(d2)), math.sqrt(float(best_sqd))), desc)
        return
    m = min(samples_sqd) if samples_sqd else None
    if m is not None and float(d2) > float(m) + tol:
        ctx.violation(fam + ':not_minimal:' + region, 'distance %.9g but a sampled point of the object is at %.9g' % (
            math.sqrt(float(d2)), math.sqrt(float(m))), desc)


def fam_lines(ctx, rng):
    d3 = rng.random() < 0.5
    kind = rng.choice(['seg', 'ray'])
    far = rng.random() < (0.55 if d3 else 0.3)            # the object somewhere in a site model (coordinates to 1e4), the query a few millimetres .. centimetres off it
    ext = 50 if not far else 9000
    if d3:
        L = (Ray3D if kind == 'ray' else LineSegment3D)(P3(G.rpt3(rng, ext)), V3(G.rvec3(rng, 30)))
    else:
        L = (Ray2D if kind == 'ray' else LineSegment2D)(P2(G.rpt2(rng, ext)), V2(G.rvec2(rng, 30)))
    p, v = X.fpt(L.p), X.fpt(L.v)
    mode = rng.choice(['random', 'on', 'beyond_start', 'beyond_end'])
    t = {'random': rng.uniform(-0.5, 1.5), 'on': rng.uniform(0, 1), 'beyond_start': rng.uniform(-3, -0.1),
         'beyond_end': rng.uniform(1.1, 4)}[mode]
    base = [float(p[i]) + t * float(v[i]) for i in range(len(p))]
    off = (G.rvec3(rng, 20) if d3 else G.rvec2(rng, 20)) if mode != 'on' else tuple(0.0 for _ in p)
    if far and mode != 'on':
        mag = rng.choice([0.001, 0.004, 0.02])
        off = tuple(rng.uniform(-mag, mag) for _ in p)
    qf = tuple(G.dy(base[i] + off[i], 20 if far else 10) for i in range(len(p)))
    if mode == 'on':
        # exactly on the object: dyadic parameter
        tt = Fraction(rng.randint(0, 16), 16)
        qq = X.add(p, X.smul(tt, v))
        qf = tuple(float(c) for c in qq)
        if any(F(c) != e for c, e in zip(qf, qq)):
            mode = 'near'
    qp = X.fpt(qf)
    Q_ = (P3 if d3 else P2)(qf)
    res = X.fpt(L.closest_point(Q_))
    dist = L.distance_to_point(Q_)
    ustar = X.dot(X.sub(qp, p), v) / X.dot(v, v)
    uc = max(Fraction(0), ustar) if kind == 'ray' else max(Fraction(0), min(Fraction(1), ustar))
    best = X.sqd(qp, X.add(p, X.smul(uc, v)))
    hi = 4.0 if kind == 'ray' else 1.0
    samples = [X.sqd(qp, X.add(p, X.smul(F(hi * i / 200), v))) for i in range(201)]
    ur = X.dot(X.sub(res, p), v) / X.dot(v, v)
    on_line = X.sqd(res, X.add(p, X.smul(ur, v)))
    out = (ur < -Fraction(1, 10 ** 9)) or (kind == 'seg' and ur > 1 + Fraction(1, 10 ** 9))
    on_obj = on_line if not out else X.sqd(res, X.add(p, X.smul(uc, v)))
    sc = max(1.0, max(abs(float(c)) for c in p + v + qp))
    region = 'start' if ustar < 0 else ('end' if (kind == 'seg' and ustar > 1) else 'interior')
    fam = 'closest.%s%s' % (kind, '3d' if d3 else '2d')
    ctx.count(fam, key=(region, mode), sample={'line': repr(L.to_dict()), 'query': qf}, nontrivial=mode != 'on')
    desc = {'line': repr(L.to_dict())}
    check_closest(ctx, fam, desc, qp, res, on_obj, samples, best, sc, region)
    if not X.close(dist * dist, X.sqd(qp, res), 1e-7, 1e-12) and abs(dist - math.sqrt(float(X.sqd(qp, res)))) > 1e-10 * sc:
        ctx.violation(fam + ':distance_mismatch', 'distance_to_point %r differs from |q - closest_point| %r' % (
            dist, math.sqrt(float(X.sqd(qp, res)))), dict(desc, query=qf))
    if dist < 0:
        ctx.violation(fam + ':negative', 'negative distance %r' % dist, dict(desc, query=qf))
    if mode == 'on' and dist > 1e-9 * sc:
        ctx.violation(fam + ':nonzero_on_object', 'query on the object has distance %r' % dist, dict(desc, query=qf))
    # 1-Lipschitz in the query
    q2 = tuple(G.dy(c + rng.uniform(-2, 2)) for c in qf)
    d2 = L.distance_to_point((P3 if d3 else P2)(q2))
    step = math.sqrt(sum((a - b) ** 2 for a, b in zip(qf, q2)))
    if abs(dist - d2) > step + 1e-9 * sc:
        ctx.violation(fam + ':not_lipschitz', 'distance changes by %r when the query moves %r' % (abs(dist - d2), step),
                      dict(desc, query=qf, query2=q2))


def fam_seg_seg(ctx, rng):
    """closest points between two non-crossing 2D segments / distance_to_line"""
    a = LineSegment2D(P2(G.rpt2(rng, 50)), V2(G.rvec2(rng, 30)))
    b = LineSegment2D(P2(G.rpt2(rng, 50)), V2(G.rvec2(rng, 30)))
    mode = rng.choice(['general', 'general', 'parallel', 'parallel', 'collinear'])
    if mode != 'general':
        # exactly parallel pairs (dyadic data: b.v is an exact multiple of a.v): b nested in a's span, a nested in b's, partly
        # overlapping, or apart along the direction; given in either argument order; 'collinear' puts them on one line
        t0 = rng.choice([0.25, 0.375, -0.5, 1.25, 0.0]); k = rng.choice([0.25, 0.5, -0.25, 1.5, 2.0, -2.0])
        n = (-a.v.y, a.v.x)
        off = 0.0 if mode == 'collinear' else rng.choice([0.125, -0.25, 0.5])
        if mode == 'collinear':
            t0 = rng.choice([1.25, -0.75, 2.0]); k = rng.choice([0.25, 0.5]) * (1 if t0 > 0 else -1)
        b = LineSegment2D(P2((a.p.x + t0 * a.v.x + off * n[0], a.p.y + t0 * a.v.y + off * n[1])), V2((k * a.v.x, k * a.v.y)))
        if rng.random() < 0.5:
            a, b = b, a
    pa, va, pb, vb = X.fpt(a.p), X.fpt(a.v), X.fpt(b.p), X.fpt(b.v)
    if X.segs_intersect(pa, X.add(pa, va), pb, X.add(pb, vb)):
        return
    d_ab, d_ba = a.distance_to_line(b), b.distance_to_line(a)
    pts = a.closest_points_between_line(b)
    cands = [X.sqdist_point_segment(pa, pb, X.add(pb, vb)), X.sqdist_point_segment(X.add(pa, va), pb, X.add(pb, vb)),
             X.sqdist_point_segment(pb, pa, X.add(pa, va)), X.sqdist_point_segment(X.add(pb, vb), pa, X.add(pa, va))]
    best = min(cands)       # for non-crossing segments the minimum is attained at an end point
    sc = max(1.0, max(abs(float(c)) for c in pa + va + pb + vb))
    fam = 'closest.seg_seg2d'
    desc = {'a': repr(a.to_dict()), 'b': repr(b.to_dict())}
    ctx.count(fam, key=(mode, cands.index(best)), sample=desc)
    if not X.close(d_ab * d_ab, best, 1e-7, 1e-9 * sc * sc):
        ctx.violation(fam + ':not_minimal', 'distance %r but exact minimum %r' % (d_ab, math.sqrt(float(best))), desc)
    if abs(d_ab - d_ba) > 1e-9 * sc:
        ctx.violation(fam + ':asymmetric', 'a->b %r but b->a %r' % (d_ab, d_ba), desc)
    g0, g1 = X.fpt(pts[0]), X.fpt(pts[1])
    if float(X.sqdist_point_segment(g0, pa, X.add(pa, va))) > (1e-7 * sc) ** 2 or \
            float(X.sqdist_point_segment(g1, pb, X.add(pb, vb))) > (1e-7 * sc) ** 2:
        ctx.violation(fam + ':off_object', 'closest points %r are not on the respective segments' % (pts,), desc)
    elif not X.close(X.sqd(g0, g1), best, 1e-7, 1e-9 * sc * sc):
        ctx.violation(fam + ':points_not_minimal', 'points %r are %r apart, minimum %r' % (
            pts, math.sqrt(float(X.sqd(g0, g1))), math.sqrt(float(best))), desc)


def fam_arc(ctx, rng):
    d3 = rng.random() < 0.4
    a1, a2 = Bd.arc_angles(rng)
    r = G.dy(rng.uniform(0.5, 20))
    if d3:
        pl = Bd.plane(rng)
        arc = Arc3D(pl, r, a1, a2)
    else:
        arc = Arc2D(P2(G.rpt2(rng, 50)), r, a1, a2)
    ang = rng.uniform(0, 2 * math.pi)
    rad = r * rng.choice([rng.uniform(0.05, 0.95), rng.uniform(1.05, 3.0)])
    q2 = (rad * math.cos(ang), rad * math.sin(ang))
    if d3:
        qpt = arc.plane.xy_to_xyz(P2(q2))
        qpt = P3((G.dy(qpt.x), G.dy(qpt.y), G.dy(qpt.z)))
        if rng.random() < 0.5:
            n = arc.plane.n
            h = rng.uniform(-2, 2) * r
            qpt = P3((G.dy(qpt.x + h * n.x), G.dy(qpt.y + h * n.y), G.dy(qpt.z + h * n.z)))
    else:
        qpt = P2((G.dy(arc.c.x + q2[0]), G.dy(arc.c.y + q2[1])))
    res = arc.closest_point(qpt)
    dist = arc.distance_to_point(qpt)
    qp, g = X.fpt(qpt), X.fpt(res)
    samples_pts = [arc.point_at(i / 400) for i in range(401)]
    samples = [X.sqd(qp, X.fpt(s)) for s in samples_pts]
    on_obj = min(X.sqd(g, X.fpt(s)) for s in samples_pts)
    inv = 'inverted' if arc.is_inverted else ('circle' if arc.is_circle else 'plain')
    fam = 'closest.arc%s' % ('3d' if d3 else '2d')
    desc = {'arc': repr(arc.to_dict())}
    sc = max(1.0, r, max(abs(float(c)) for c in qp))
    # sampled optimum: allow the sampling resolution
    step = float(arc.length) / 400
    ctx.count(fam, key=(inv, rad < r), sample=dict(desc, query=[float(c) for c in qp]))
    if float(on_obj) > (step + 1e-7 * sc) ** 2:
        ctx.violation(fam + ':off_object:' + inv, 'closest point %r is %.3g away from the arc' % (res, math.sqrt(float(on_obj))),
                      dict(desc, query=[float(c) for c in qp]))
        return
    m = math.sqrt(float(min(samples)))
    d = math.sqrt(float(X.sqd(qp, g)))
    if d > m + 1e-7 * sc:
        ctx.violation(fam + ':not_minimal:' + inv, 'distance %.9g but a sampled arc point is at %.9g' % (d, m),
                      dict(desc, query=[float(c) for c in qp]))
    if abs(dist - d) > 1e-9 * sc:
        ctx.violation(fam + ':distance_mismatch', 'distance_to_point %r vs %r' % (dist, d), desc)


def fam_plane(ctx, rng):
    pl = Bd.plane(rng)
    qf = G.rpt3(rng, 100)
    res = pl.closest_point(P3(qf))
    n, o, qp, g = X.fpt(pl.n), X.fpt(pl.o), X.fpt(qf), X.fpt(res)
    dd = X.dot(n, X.sub(qp, o))
    nn = X.norm2(n)
    best = dd * dd / nn
    fam = 'closest.plane'
    desc = {'plane': repr(pl.to_dict()), 'query': qf}
    ctx.count(fam, key=round(float(dd), 0), sample=desc)
    if abs(float(X.dot(n, X.sub(g, o)))) > 1e-7 * 100:
        ctx.violation(fam + ':off_object', 'projected point %r is off the plane' % (res,), desc)
    elif not X.close(X.sqd(qp, g), best, 1e-7, 1e-6):
        ctx.violation(fam + ':not_minimal', 'distance^2 %r, exact %r' % (float(X.sqd(qp, g)), float(best)), desc)
    d = pl.distance_to_point(P3(qf))
    if abs(d - math.sqrt(float(best))) > 1e-7 * 100:
        ctx.violation(fam + ':distance', 'distance_to_point %r, exact %r' % (d, math.sqrt(float(best))), desc)
    # plane <-> line
    kind = rng.choice(['seg', 'ray'])
    L = (Ray3D if kind == 'ray' else LineSegment3D)(P3(G.rpt3(rng, 50)), V3(G.rvec3(rng, 30)))
    dl = pl.distance_to_line(L)
    p, v = X.fpt(L.p), X.fpt(L.v)
    hi = 6.0 if kind == 'ray' else 1.0
    ds = [abs(float(X.dot(n, X.sub(X.add(p, X.smul(F(hi * i / 200), v)), o)))) / math.sqrt(float(nn)) for i in range(201)]
    s0, s1 = X.dot(n, X.sub(p, o)), X.dot(n, X.sub(X.add(p, X.smul(F(hi), v)), o))
    crosses = (s0 > 0) != (s1 > 0)
    exp = 0.0 if crosses else min(ds)
    ctx.count('closest.plane_line', key=(kind, crosses), sample={'plane': repr(pl.to_dict()), 'line': repr(L.to_dict())})
    if kind == 'seg' or crosses:
        if abs(dl - exp) > 1e-6 * 100:
            ctx.violation('closest.plane_line:distance', 'distance_to_line %r, expected %r' % (dl, exp),
                          {'plane': repr(pl.to_dict()), 'line': repr(L.to_dict())})
    elif dl > min(ds) + 1e-6 * 100:
        ctx.violation('closest.plane_line:not_minimal', 'distance_to_line %r but a sampled ray point is at %r' % (dl, min(ds)),
                      {'plane': repr(pl.to_dict()), 'line': repr(L.to_dict())})


def fam_polygon(ctx, rng):
    pts = G.star_polygon(rng, R=rng.choice([10.0, 100.0]))
    shape = rng.choice(['star', 'star', 'flat', 'flat', 'spike'])
    if shape == 'flat':
        # a flat triangle / kite with one long edge: the nearest point of a query beside the long edge is in the edge's interior while
        # a vertex of ANOTHER edge is nearer than both of its ends
        L = G.dy(rng.uniform(6, 20)); hgt = G.dy(rng.uniform(0.3, 1.5)); ox, oy = G.rpt2(rng, 30)
        pts = [(ox, oy), (ox + L, oy), (ox + L * G.dy(rng.uniform(0.35, 0.65)), oy + hgt)]
        if rng.random() < 0.5:
            pts = [(p[1] - oy + ox, p[0] - ox + oy) for p in pts][::-1]          # the same shape standing upright
    elif shape == 'spike':
        # a long rectangle with a thin spike pointing at the opposite long edge from the inside (concave notch near a long edge)
        L = G.dy(rng.uniform(8, 20)); W = G.dy(rng.uniform(2, 4)); ox, oy = G.rpt2(rng, 30); m = G.dy(rng.uniform(0.4, 0.6)) * L
        pts = [(ox, oy), (ox + L, oy), (ox + L, oy + W), (ox + m + 0.25, oy + W), (ox + m, oy + 0.25), (ox + m - 0.25, oy + W), (ox, oy + W)]
    poly = Polygon2D([P2(p) for p in pts])
    f = [X.fpt(p) for p in pts]
    xs = [p[0] for p in pts]; ys = [p[1] for p in pts]
    w, h = max(xs) - min(xs), max(ys) - min(ys)
    qf = (G.dy(rng.uniform(min(xs) - 0.5 * w, max(xs) + 0.5 * w)), G.dy(rng.uniform(min(ys) - 0.5 * h, max(ys) + 0.5 * h)))
    if shape != 'star':
        # queries close to the outline (a fraction of the short side away), all around
        e = rng.randrange(len(pts)); a_, b_ = pts[e - 1], pts[e]; t = rng.uniform(0.15, 0.85); off = rng.uniform(0.05, 0.6) * min(w, h) * rng.choice([1, -1])
        ex, ey = b_[0] - a_[0], b_[1] - a_[1]; ln = math.hypot(ex, ey)
        qf = (G.dy(a_[0] + t * ex - off * ey / ln), G.dy(a_[1] + t * ey + off * ex / ln))
    qp = X.fpt(qf)
    inside = X.winding_inside(f, qp)
    bd = X.sqdist_to_boundary(f, qp)
    if inside is None or bd < Fraction(1, 10 ** 10):
        return
    d = poly.distance_to_point(P2(qf))
    de = poly.distance_from_edge_to_point(P2(qf))
    fam = 'distance.polygon2d'
    desc = {'polygon': repr(poly.to_dict()), 'query': qf}
    sc = max(1.0, max(map(abs, xs)), max(map(abs, ys)))
    ctx.count(fam, key=(inside, len(pts), shape), sample=desc)
    exp = 0.0 if inside else math.sqrt(float(bd))
    if abs(d - exp) > 1e-9 * sc:
        ctx.violation(fam + (':inside_nonzero' if inside else ':outside_wrong'), 'distance_to_point %r expected %r' % (d, exp), desc)
    if abs(de - math.sqrt(float(bd))) > 1e-9 * sc:
        ctx.violation(fam + ':edge_distance', 'distance_from_edge_to_point %r expected %r' % (de, math.sqrt(float(bd))), desc)


def fam_pole(ctx, rng):
    pts = G.star_polygon(rng, n=rng.randint(3, 10), R=10.0)
    poly = Polygon2D([P2(p) for p in pts])
    f = [X.fpt(p) for p in pts]
    prec = 0.01
    pole = poly.pole_of_inaccessibility(prec)
    g = X.fpt(pole)
    fam = 'pole.polygon2d'
    desc = {'polygon': repr(poly.to_dict()), 'pole': [pole.x, pole.y]}
    ins = X.winding_inside(f, g)
    ctx.count(fam, key=len(pts), sample=desc)
    if ins is not True:
        ctx.violation(fam + ':outside', 'pole %r is not an interior point' % (pole,), desc)
        return
    dp = math.sqrt(float(X.sqdist_to_boundary(f, g)))
    # independent branch and bound (floats, true half-diagonal bound) to 1e-3; its best point is then measured exactly
    cand = best_interior_point(pts, 1e-3)
    fc = X.fpt(cand)
    best = math.sqrt(float(X.sqdist_to_boundary(f, fc))) if X.winding_inside(f, fc) else 0.0
    if dp < best - prec - 1e-9:
        ctx.violation(fam + ':not_optimal', 'pole clearance %r but the interior point %r has clearance %r (precision %r)' % (
            dp, cand, best, prec), desc)


def fam_pole_face(ctx, rng):
    """Face3D.pole_of_inaccessibility of faces WITH holes (a hole is put over the pole of the outline alone): the pole is a point of
    the face - not in a hole - and its clearance from ALL loops is within the precision of the best one"""
    b = G.star_polygon(rng, n=rng.randint(4, 9), R=10.0, center=(0.0, 0.0))
    fb = [X.fpt(p) for p in b]
    prec = 0.01
    p0 = Polygon2D([P2(p) for p in b]).pole_of_inaccessibility(prec)
    r0 = math.sqrt(float(X.sqdist_to_boundary(fb, X.fpt(p0))))
    # a hole around the outline's own pole (regular polygon of 3..6 corners, radius a fraction of the clearance) and maybe a second one
    hs = []
    k = rng.randint(3, 6); rr = r0 * rng.choice([0.3, 0.5, 0.7]); a0 = rng.uniform(0, 6.28)
    hs.append([(G.dy(p0.x + rr * math.cos(a0 + 2 * math.pi * i / k)), G.dy(p0.y + rr * math.sin(a0 + 2 * math.pi * i / k))) for i in range(k)])
    if rng.random() < 0.4:
        hs += [h for h in G.holes_in(rng, b, 1) if all(X.sqd(X.fpt(q_), X.fpt(p0)) > Fraction(rr * 1.5) ** 2 for q_ in h)]
    fh = [[X.fpt(q_) for q_ in h] for h in hs]
    if not all(G.certify_polygon(h) for h in hs) or not all(X.winding_inside(fb, q_) is True for h in fh for q_ in h):
        return
    frame = G.rational_frame(rng); o = G.rpt3(rng, 50.0)
    face = Face3D([P3(G.embed(frame, o, p)) for p in b], holes=[[P3(G.embed(frame, o, q_)) for q_ in h] for h in hs])
    fam = 'pole.face3d.holes'
    desc = {'boundary2d': b, 'holes2d': hs, 'frame': frame, 'origin': o}
    ctx.count(fam, key=(len(b), len(hs), k), sample=desc, nontrivial=True)
    try:
        pole3 = face.pole_of_inaccessibility(prec)
    except Exception as e:
        ctx.violation(fam + ':raises', '%r' % (e,), desc); return
    # back to the generator's 2D frame (exact inverse of the embedding up to rounding): project on the frame axes
    d = [pole3.x - o[0], pole3.y - o[1], pole3.z - o[2]]
    g = (sum(d[i] * frame[0][i] for i in range(3)), sum(d[i] * frame[1][i] for i in range(3)))
    off = abs(sum(d[i] * frame[2][i] for i in range(3)))
    if off > 1e-6:
        ctx.violation(fam + ':off_plane', 'pole %r is %r off the face plane' % (pole3, off), desc); return
    gq = X.fpt(g)
    if X.region_contains(fb, fh, gq) is not True:
        ctx.violation(fam + ':outside', 'pole %r (2D %r) is not a point of the face (outside the outline or inside a hole)' % (pole3, g), desc); return
    clear = math.sqrt(float(min([X.sqdist_to_boundary(fb, gq)] + [X.sqdist_to_boundary(h, gq) for h in fh])))
    cand = best_interior_point(b, 1e-3, hs)
    cq = X.fpt(cand)
    best = math.sqrt(float(min([X.sqdist_to_boundary(fb, cq)] + [X.sqdist_to_boundary(h, cq) for h in fh]))) \
        if X.region_contains(fb, fh, cq) is True else 0.0
    if clear < best - prec - 1e-9:
        ctx.violation(fam + ':not_optimal', 'pole clearance %r but the face point %r has clearance %r (precision %r)' % (clear, cand, best, prec), desc)
    # the 2D routine on ONE outline object asked several times (without holes, with these holes, without again, coarser precision):
    # every answer is the pole of the region it was asked about
    outline = Polygon2D([P2(p) for p in b]); hpolys = [Polygon2D([P2(q_) for q_ in h]) for h in hs]
    asks = [(None, prec), (hpolys, prec), (None, prec), (hpolys, 0.05)] if rng.random() < 0.5 else [(hpolys, prec), (None, prec), (hpolys, 0.05)]
    cand0 = None
    for i, (hl, pr) in enumerate(asks):
        try:
            pq = outline.pole_of_inaccessibility(pr, hl) if hl is not None else outline.pole_of_inaccessibility(pr)
        except Exception as e:
            ctx.violation('pole.polygon2d.repeated:raises', '%r' % (e,), desc); return
        pq_ = X.fpt(pq); hh = fh if hl is not None else []
        if X.region_contains(fb, hh, pq_) is not True:
            ctx.violation('pole.polygon2d.repeated:outside', 'call %d (%s holes, precision %r) on the same outline returned %r, not a point of that region' % (
                i + 1, 'with' if hl is not None else 'without', pr, pq), desc); return
        cl = math.sqrt(float(min([X.sqdist_to_boundary(fb, pq_)] + [X.sqdist_to_boundary(h, pq_) for h in hh])))
        if hl is None:
            cand0 = cand0 or best_interior_point(b, 1e-3)
            ref = math.sqrt(float(X.sqdist_to_boundary(fb, X.fpt(cand0))))
        else:
            ref = best
        if cl < ref - pr - 1e-9:
            ctx.violation('pole.polygon2d.repeated:not_optimal', 'call %d (%s holes, precision %r) on the same outline: clearance %r, a point with %r exists' % (
                i + 1, 'with' if hl is not None else 'without', pr, cl, ref), desc); return


def best_interior_point(pts, eps, holes=()):
    import heapq
    def sd(x, y):
        v = sd1(pts, x, y)
        for h in holes:
            v = min(v, -sd1(h, x, y))
        return v
    def sd1(pts, x, y):
        # signed distance to the polygon: positive inside
        n = len(pts)
        inside = False; best = float('inf')
        for i in range(n):
            ax, ay = pts[i - 1]; bx, by = pts[i]
            if (ay > y) != (by > y) and x < (bx - ax) * (y - ay) / (by - ay) + ax:
                inside = not inside
            dx, dy = bx - ax, by - ay
            t = ((x - ax) * dx + (y - ay) * dy) / (dx * dx + dy * dy)
            t = 0.0 if t < 0 else (1.0 if t > 1 else t)
            d = math.hypot(x - ax - t * dx, y - ay - t * dy)
            best = min(best, d)
        return best if inside else -best
    xs = [p[0] for p in pts]; ys = [p[1] for p in pts]
    x0, x1, y0, y1 = min(xs), max(xs), min(ys), max(ys)
    size = min(x1 - x0, y1 - y0); h = size / 2
    best = (-1.0, (0.0, 0.0)); heap = []; k = 0
    x = x0
    while x < x1:
        y = y0
        while y < y1:
            d = sd(x + h, y + h); k += 1
            heapq.heappush(heap, (-(d + h * math.sqrt(2)), k, x + h, y + h, h, d))
            y += size
        x += size
    while heap:
        nb, _, cx, cy, ch, d = heapq.heappop(heap)
        if d > best[0]:
            best = (d, (cx, cy))
        if -nb - best[0] <= eps:
            continue
        hh = ch / 2
        for ddx in (-hh, hh):
            for ddy in (-hh, hh):
                dd = sd(cx + ddx, cy + ddy); k += 1
                heapq.heappush(heap, (-(dd + hh * math.sqrt(2)), k, cx + ddx, cy + ddy, hh, dd))
    return best[1]


FAMILIES = [(fam_lines, 130), (fam_seg_seg, 60), (fam_arc, 40), (fam_plane, 25), (fam_polygon, 60), (fam_pole, 40), (fam_pole_face, 25)]


def explore(ctx):
    for f, n in FAMILIES:
        for _ in range(ctx.n(n, n * 10)):
            f(ctx, ctx.rng)


def replay(ctx, data):
    kind = data.get('kind', '')
    c2 = core.Ctx(ctx.pid, 'quick', 4242)
    for f, _ in FAMILIES:
        for _ in range(1500):
            f(c2, c2.rng)
            if any(v.kind == kind for v in c2.violations):
                return True
    return False


def correspond(ctx):
    """closest-point kernels on integer data (float evaluation takes the model's branches), also full-precision"""
    from .C11 import lr2, lr3, plq
    from ladybug_geometry.intersection2d import closest_point2d_on_line2d, closest_point2d_on_line2d_infinite
    from ladybug_geometry.intersection3d import closest_point3d_on_line3d, closest_point3d_on_plane
    rng = ctx.rng
    pre = ('Definition c2 (a b : V2) (t : Q) : bool := Qle_bool (Qabs (v2x a - v2x b)) t && Qle_bool (Qabs (v2y a - v2y b)) t.\n'
           'Definition c3 (a b : V3) (t : Q) : bool := Qle_bool (Qabs (v3x a - v3x b)) t && Qle_bool (Qabs (v3y a - v3y b)) t '
           '&& Qle_bool (Qabs (v3z a - v3z b)) t.\n')
    cases, meta = [], []
    tol = q(Fraction(1, 10 ** 7))
    for _ in range(ctx.n(150, 1200)):
        k = rng.choice(['seg', 'ray'])
        a = (Ray2D if k == 'ray' else LineSegment2D)(P2(G.rpt2(rng, 50)), V2(G.rvec2(rng, 30)))
        pt = G.rpt2(rng, 80)
        r = closest_point2d_on_line2d(P2(pt), a)
        cases.append('c2 (closest_point2d_on_line2d_%s %s %s) %s %s' % (k, v2(pt), lr2(a), v2((r.x, r.y)), tol))
        meta.append(('closest_point2d_on_line2d_' + k, pt, a))
        r = closest_point2d_on_line2d_infinite(P2(pt), a)
        cases.append('c2 (closest_point2d_on_line2d_infinite_%s %s %s) %s %s' % (k, v2(pt), lr2(a), v2((r.x, r.y)), tol))
        meta.append(('closest_point2d_on_line2d_infinite_' + k, pt, a))
        L = (Ray3D if k == 'ray' else LineSegment3D)(P3(G.rpt3(rng, 50)), V3(G.rvec3(rng, 30)))
        p3 = G.rpt3(rng, 80)
        r = closest_point3d_on_line3d(P3(p3), L)
        cases.append('c3 (closest_point3d_on_line3d_%s %s %s) %s %s' % (k, v3(p3), lr3(L), v3(tuple(r)), tol))
        meta.append(('closest_point3d_on_line3d_' + k, p3, L))
    res = core.run_cases('C12_corr', ['Base', 'G0_vec', 'G1_shapes', 'G2_inter'], pre, cases)
    ctx.corr_cases += len(cases)
    for ok, m in zip(res, meta):
        if ok is not True:
            ctx.corr_fail.append({'function': m[0], 'input': repr(m[1:]),
                                  'result': 'model and implementation differ' if ok is False else 'model evaluation failed'})
