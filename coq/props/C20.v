(* C20 -- grid meshes are faithful to the geometry.  PARTIAL: proved for the generated grid kernels
   Mesh2D._grid_faces / Mesh2D._grid_vertices (translated from /repo on every run): for every grid size the face list
   and the vertex list equal the closed-form specification, face number i*ny+j has the indices
   (c, c+ny+1, c+ny+2, c+1) with c = i(ny+1)+j, and vertex number i(ny+1)+j lies at (bx + i dx, by + j dy) -- hence every
   face is exactly the dx x dy cell (i,j), all cells are congruent, and there are nx*ny of them.  Removal of cells, the
   polygon / face grids, and OBJ / STL files are validated by the harness (file I/O is not modelled). *)
From LBG Require Import Base QGeom G0_vec G10_grid C20_grid.
Open Scope Q_scope.

Theorem C20_grid_faces_closed_form : forall nx ny, (0 <= nx)%Z -> (0 <= ny)%Z ->
  Mesh2D__grid_faces nx ny = grid_faces_spec nx ny /\ length (Mesh2D__grid_faces nx ny) = (Z.to_nat nx * Z.to_nat ny)%nat.
Proof. intros nx ny Hx Hy. split; [apply grid_faces_is_spec; assumption | rewrite grid_faces_is_spec by assumption; apply grid_faces_length; assumption]. Qed.
Print Assumptions C20_grid_faces_closed_form.

Theorem C20_grid_face_is_cell : forall nx ny i j d, (0 <= nx)%Z -> (0 <= ny)%Z -> (i < Z.to_nat nx)%nat -> (j < Z.to_nat ny)%nat ->
  nth (i * Z.to_nat ny + j) (Mesh2D__grid_faces nx ny) d = cellface ny (Z.of_nat i * (ny + 1) + Z.of_nat j)%Z.
Proof. exact grid_face_cell. Qed.
Print Assumptions C20_grid_face_is_cell.

Theorem C20_grid_vertex_position : forall b nx ny dx dy i j, (0 <= nx)%Z -> (0 <= ny)%Z -> (i <= Z.to_nat nx)%nat -> (j <= Z.to_nat ny)%nat ->
  let v := nth (i * Z.to_nat (ny + 1) + j) (Mesh2D__grid_vertices b nx ny dx dy) (mkV2 0 0) in
  v2x v == v2x b + inject_Z (Z.of_nat i) * dx /\ v2y v == v2y b + inject_Z (Z.of_nat j) * dy.
Proof. exact grid_vertex_position. Qed.
Print Assumptions C20_grid_vertex_position.

Example C20_nonvacuous :
  Mesh2D__grid_faces 2 2 = [(0, 3, 4, 1); (1, 4, 5, 2); (3, 6, 7, 4); (4, 7, 8, 5)]%Z /\
  length (Mesh2D__grid_vertices (mkV2 1 1) 2 2 (1#2) (1#4)) = 9%nat.
Proof. vm_compute. split; reflexivity. Qed.
