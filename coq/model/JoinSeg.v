(* JoinSeg.v -- hand model of _polyline.py (_group_vertices / _build_polyline / _connect_seg_to_poly) with
   EXACT end-point matching (tolerance 0); tied to the implementation by the correspondence of harness/props/C18.py. *)
From Coq Require Import ZArith List Bool Lia.
Import ListNotations.
Open Scope Z_scope.

Definition pt := (Z * Z)%type.
Definition seg := (pt * pt)%type.
Definition peq (a b : pt) : bool := (fst a =? fst b) && (snd a =? snd b).
Lemma peq_eq a b : peq a b = true <-> a = b.
Proof. destruct a, b; unfold peq; cbn. rewrite andb_true_iff, !Z.eqb_eq. split; [intros [-> ->]; reflexivity| intros H; inversion H; auto]. Qed.

Definition connect (poly : list pt) (s : seg) : option (list pt) :=
  match poly with
  | [] => None
  | h :: _ =>
    let l := last poly h in
    if peq l (fst s) then Some (poly ++ [snd s])
    else if peq h (snd s) then Some (fst s :: poly)
    else if peq l (snd s) then Some (poly ++ [fst s])
    else if peq h (fst s) then Some (snd s :: poly)
    else None
  end.

(* the first segment of [others] that connects is consumed (for ... break) *)
Fixpoint try_first (poly : list pt) (others : list seg) : option (list pt * list seg) :=
  match others with
  | [] => None
  | s :: r => match connect poly s with
              | Some p' => Some (p', r)
              | None => match try_first poly r with Some (p', r') => Some (p', s :: r') | None => None end
              end
  end.

Fixpoint build (fuel : nat) (poly : list pt) (others : list seg) : list pt * list seg :=
  match fuel with
  | O => (poly, others)
  | S k => match try_first poly others with Some (p', o') => build k p' o' | None => (poly, others) end
  end.

Fixpoint group (fuel : nat) (base : seg) (remain : list seg) (acc : list (list pt)) : list (list pt) :=
  match fuel with
  | O => acc
  | S k =>
    match remain with
    | [] => acc
    | _ => let '(poly, rem') := build (length remain) [fst base; snd base] remain in
           let acc' := acc ++ [poly] in
           match rem' with
           | [] => acc'
           | [s] => acc' ++ [[fst s; snd s]]
           | s :: r => group k s r acc'
           end
    end
  end.

Definition group_vertices (segs : list seg) : list (list pt) :=
  match segs with [] => [] | b :: r => group (S (length r)) b r [] end.

Definition chains_eqb (a b : list (list pt)) : bool :=
  Nat.eqb (length a) (length b) &&
  forallb (fun p => Nat.eqb (length (fst p)) (length (snd p)) && forallb (fun q => peq (fst q) (snd q)) (combine (fst p) (snd p))) (combine a b).

(* ------------------------------------------------------------------ conservation *)
Fixpoint edges (poly : list pt) : list seg :=
  match poly with [] => [] | a :: r => match r with [] => [] | b :: _ => (a, b) :: edges r end end.

Definition seq_b (s t : seg) : bool := peq (fst s) (fst t) && peq (snd s) (snd t).
Definition same_und (k s : seg) : bool := seq_b k s || seq_b k (snd s, fst s).
Definition cnt (k : seg) (l : list seg) : nat := length (filter (same_und k) l).

Lemma cnt_app k a b : cnt k (a ++ b) = (cnt k a + cnt k b)%nat.
Proof. unfold cnt. rewrite filter_app, app_length. reflexivity. Qed.
Lemma cnt_cons k s l : cnt k (s :: l) = ((if same_und k s then 1 else 0) + cnt k l)%nat.
Proof. unfold cnt. cbn. destruct (same_und k s); reflexivity. Qed.
Lemma same_und_swap k a b : same_und k (b, a) = same_und k (a, b).
Proof. unfold same_und. cbn. apply orb_comm. Qed.

Lemma edges_cons2 a b r : edges (a :: b :: r) = (a, b) :: edges (b :: r).
Proof. reflexivity. Qed.

Lemma edges_snoc poly x h : poly <> [] -> edges (poly ++ [x]) = edges poly ++ [(last poly h, x)].
Proof.
  induction poly as [|a r IH]; intros Hne; [congruence|].
  destruct r as [|b r]; [reflexivity|].
  change ((a :: b :: r) ++ [x]) with (a :: b :: (r ++ [x])). rewrite edges_cons2.
  change (b :: r ++ [x]) with ((b :: r) ++ [x]). rewrite IH by congruence. rewrite edges_cons2.
  change (last (a :: b :: r) h) with (last (b :: r) h). reflexivity.
Qed.

Lemma connect_cnt poly s p' k : connect poly s = Some p' ->
  cnt k (edges p') = (cnt k (edges poly) + (if same_und k s then 1 else 0))%nat.
Proof.
  destruct s as [p1 p2]. unfold connect. destruct poly as [|h r]; [discriminate|]. cbn [fst snd].
  remember (h :: r) as poly eqn:EP. assert (Hne : poly <> []) by (subst; congruence).
  destruct (peq (last poly h) p1) eqn:E1.
  - intros H; injection H as <-. apply peq_eq in E1. rewrite (edges_snoc poly p2 h Hne), cnt_app, E1. unfold cnt at 2; cbn.
    destruct (same_und k (p1, p2)); cbn; lia.
  - destruct (peq h p2) eqn:E2.
    + intros H; injection H as <-. apply peq_eq in E2. subst h. rewrite EP at 1. rewrite edges_cons2, cnt_cons. rewrite <- EP. lia.
    + destruct (peq (last poly h) p2) eqn:E3.
      * intros H; injection H as <-. apply peq_eq in E3. rewrite (edges_snoc poly p1 h Hne), cnt_app, E3. unfold cnt at 2; cbn.
        rewrite same_und_swap. destruct (same_und k (p1, p2)); cbn; lia.
      * destruct (peq h p1) eqn:E4; [|discriminate].
        intros H; injection H as <-. apply peq_eq in E4. subst h. rewrite EP at 1. rewrite edges_cons2, cnt_cons, same_und_swap. rewrite <- EP. lia.
Qed.

Lemma connect_nonempty poly s p' : connect poly s = Some p' -> p' <> [].
Proof.
  unfold connect. destruct poly as [|h r]; [discriminate|].
  repeat (match goal with |- context [if ?c then _ else _] => destruct c end); intros H; try discriminate; injection H as <-;
  try discriminate; destruct r; discriminate.
Qed.

Lemma try_first_cnt poly others p' o' k : try_first poly others = Some (p', o') ->
  (cnt k (edges p') + cnt k o' = cnt k (edges poly) + cnt k others)%nat /\ length others = S (length o').
Proof.
  revert o'. induction others as [|s r IH]; intros o' H; [discriminate|]. cbn [try_first] in H.
  destruct (connect poly s) as [q|] eqn:C.
  - injection H as <- <-. rewrite (connect_cnt _ _ _ k C), cnt_cons. split; [lia| reflexivity].
  - destruct (try_first poly r) as [[q r']|] eqn:T; [|discriminate]. injection H as <- <-.
    destruct (IH r' eq_refl) as [A B]. rewrite !cnt_cons. cbn [length]. split; lia.
Qed.

Lemma build_cnt fuel : forall poly others k,
  (cnt k (edges (fst (build fuel poly others))) + cnt k (snd (build fuel poly others)) = cnt k (edges poly) + cnt k others)%nat.
Proof.
  induction fuel as [|f IH]; intros poly others k; [reflexivity|]. cbn [build].
  destruct (try_first poly others) as [[p' o']|] eqn:T; [|reflexivity].
  rewrite IH. apply (try_first_cnt _ _ _ _ k T).
Qed.

Definition poly_dummy_key : seg := ((0, 0), (0, 0)).

Lemma build_len fuel : forall poly others, (length (snd (build fuel poly others)) <= length others)%nat.
Proof.
  induction fuel as [|f IH]; intros poly others; [cbn; lia|]. cbn [build].
  destruct (try_first poly others) as [[p' o']|] eqn:T; [|cbn; lia].
  destruct (try_first_cnt _ _ _ _ (poly_dummy_key) T) as [_ L]. specialize (IH p' o'). lia.
Qed.

Definition all_edges (chains : list (list pt)) : list seg := flat_map edges chains.

Lemma all_edges_app a b : all_edges (a ++ b) = all_edges a ++ all_edges b.
Proof. unfold all_edges. apply flat_map_app. Qed.

Lemma group_cnt fuel : forall base remain acc k, remain <> [] ->
  (length remain <= fuel)%nat ->
  cnt k (all_edges (group fuel base remain acc)) = (cnt k (all_edges acc) + cnt k (base :: remain))%nat.
Proof.
  induction fuel as [|f IH]; intros base remain acc k Hne Hf; [destruct remain; [congruence| cbn in Hf; lia]|].
  cbn [group]. destruct remain as [|s0 r0] eqn:ER; [congruence|]. rewrite <- ER in *.
  pose proof (build_cnt (length remain) [fst base; snd base] remain k) as B.
  destruct (build (length remain) [fst base; snd base] remain) as [poly rem'] eqn:EB. cbn [fst snd] in B.
  assert (Eb : cnt k (edges [fst base; snd base]) = (if same_und k base then 1 else 0)%nat).
  { destruct base as [b1 b2]. cbn. unfold cnt. cbn. destruct (same_und k (b1, b2)); reflexivity. }
  assert (Hlen : (length rem' <= length remain)%nat).
  { pose proof (build_len (length remain) [fst base; snd base] remain) as BL. rewrite EB in BL. exact BL. }
  rewrite cnt_cons. rewrite Eb in B.
  destruct rem' as [|s [|s2 r2]].
  - rewrite all_edges_app, cnt_app. unfold all_edges at 2. cbn [flat_map]. rewrite app_nil_r. change (cnt k []) with 0%nat in B. lia.
  - rewrite !all_edges_app, !cnt_app. unfold all_edges at 2 3. cbn [flat_map]. rewrite !app_nil_r.
    assert (Es : cnt k (edges [fst s; snd s]) = cnt k [s]).
    { destruct s as [a b]. reflexivity. }
    rewrite Es. lia.
  - rewrite IH; [| congruence| cbn [length] in *; lia].
    rewrite all_edges_app, cnt_app. unfold all_edges at 2. cbn [flat_map]. rewrite app_nil_r. lia.
Qed.

(* every input segment is used exactly once (as an undirected edge) by the returned chains *)
Theorem group_uses_each_segment_once segs k : (2 <= length segs)%nat ->
  cnt k (all_edges (group_vertices segs)) = cnt k segs.
Proof.
  intros H. destruct segs as [|b r]; [cbn in H; lia|]. destruct r as [|s r]; [cbn in H; lia|].
  unfold group_vertices. rewrite group_cnt; [reflexivity| congruence| lia].
Qed.

