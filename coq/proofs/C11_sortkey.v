(* C11_sortkey.v -- the key by which Face3D.intersect_plane sorts the crossings of the cut line with the face outline (generated
   Face3D_intersect_plane_key): along the line p + t v (v the direction of the ray whose crossings are sorted) the key is strictly
   increasing in t, so sorting by it orders the crossings along the line whatever the direction of the line in the plane's axes -
   in particular when the line runs along the plane's y axis, where the x coordinate is constant. *)
From Coq Require Import QArith Lqa.
From LBG Require Import S_sortkeys.
Open Scope Q_scope.

Lemma key_along_line px py vx vy t :
  Face3D_intersect_plane_key vx vy (px + t * vx) (py + t * vy) ==
  Face3D_intersect_plane_key vx vy px py + t * (vx * vx + vy * vy).
Proof. unfold Face3D_intersect_plane_key. ring. Qed.

Lemma sq_sum_pos vx vy : ~ (vx == 0 /\ vy == 0) -> 0 < vx * vx + vy * vy.
Proof.
  intros H. destruct (Qlt_le_dec 0 (vx * vx + vy * vy)) as [P|N]; [exact P|]. exfalso. apply H.
  assert (A : 0 <= vx * vx) by nra. assert (B : 0 <= vy * vy) by nra.
  split; nra.
Qed.

Theorem key_orders_crossings_along_the_line : forall px py vx vy t1 t2,
  ~ (vx == 0 /\ vy == 0) ->
  (t1 < t2 <-> Face3D_intersect_plane_key vx vy (px + t1 * vx) (py + t1 * vy) < Face3D_intersect_plane_key vx vy (px + t2 * vx) (py + t2 * vy)).
Proof.
  intros px py vx vy t1 t2 H. rewrite !key_along_line. pose proof (sq_sum_pos vx vy H) as P.
  set (s := vx * vx + vy * vy) in *. split; intros L; nra.
Qed.

(* equal keys only for the same parameter: no two distinct crossings tie (a tie would leave their order to the outline order) *)
Theorem key_ties_only_at_equal_parameters : forall px py vx vy t1 t2,
  ~ (vx == 0 /\ vy == 0) ->
  Face3D_intersect_plane_key vx vy (px + t1 * vx) (py + t1 * vy) == Face3D_intersect_plane_key vx vy (px + t2 * vx) (py + t2 * vy) -> t1 == t2.
Proof.
  intros px py vx vy t1 t2 H. rewrite !key_along_line. pose proof (sq_sum_pos vx vy H) as P.
  set (s := vx * vx + vy * vy) in *. intros E. nra.
Qed.

Theorem key_direction_is_the_ray_direction : Face3D_intersect_plane_key_dir_is_ray_dir = true.
Proof. reflexivity. Qed.

(* for comparison, the key used before the repair (the x coordinate alone) does not order a line that runs along the y axis *)
Lemma x_coordinate_does_not_order_a_line_along_y :
  exists px vx vy t1 t2 : Q, ~ (vx == 0 /\ vy == 0) /\ t1 < t2 /\ ~ (px + t1 * vx < px + t2 * vx).
Proof. exists 3, 0, 1, 0, 1. split; [intros [_ H]; discriminate H|]. split; [reflexivity|]. intros H. vm_compute in H. discriminate H. Qed.
