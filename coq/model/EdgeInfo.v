(* EdgeInfo.v -- hand model of MeshBase._compute_edge_info (= the edge loop of Polyface3D.__init__):
   faces are loops of vertex indices; every consecutive pair (f[i-1], f[i]) is looked up first reversed,
   then as is, and appended with type 0 when absent (degenerate pairs v,v are skipped).
   Tied to the implementation by the vm_compute correspondence of harness/props/C07.py. *)
From Coq Require Import ZArith List Bool Lia.
Import ListNotations.
Open Scope Z_scope.

Definition edge := (Z * Z)%type.
Definition eqe (a b : edge) : bool := (fst a =? fst b) && (snd a =? snd b).
Definition swap (e : edge) : edge := (snd e, fst e).
Definition same_und (a b : edge) : bool := eqe a b || eqe a (swap b).

Fixpoint bump (k : edge) (st : list (edge * nat)) : option (list (edge * nat)) :=
  match st with
  | [] => None
  | (e, t) :: r => if eqe e k then Some ((e, S t) :: r)
                   else match bump k r with Some r' => Some ((e, t) :: r') | None => None end
  end.

Definition add (st : list (edge * nat)) (prev vi : Z) : list (edge * nat) :=
  match bump (vi, prev) st with
  | Some s => s
  | None => match bump (prev, vi) st with
            | Some s => s
            | None => if prev =? vi then st else st ++ [((prev, vi), O)]
            end
  end.

Definition cyc_pairsZ (l : list Z) : list (Z * Z) :=
  match l with [] => [] | x :: _ => combine (last l x :: removelast l) l end.

Definition add_all (st : list (edge * nat)) (es : list (Z * Z)) : list (edge * nat) :=
  fold_left (fun st pc => add st (fst pc) (snd pc)) es st.

Definition all_pairs (faces : list (list Z)) : list (Z * Z) := flat_map cyc_pairsZ faces.

Definition edge_info (faces : list (list Z)) : list (edge * nat) :=
  fold_left (fun st f => add_all st (cyc_pairsZ f)) faces [].

Definition edge_state_eqb (a b : list (edge * nat)) : bool :=
  Nat.eqb (length a) (length b) &&
  forallb (fun p => eqe (fst (fst p)) (fst (snd p)) && Nat.eqb (snd (fst p)) (snd (snd p))) (combine a b).

(* ------------------------------------------------------------------ specification *)
(* weight of key k in a state: sum of (type + 1) over the entries for the same undirected edge;
   number of such entries; number of processed directed pairs on that undirected edge *)
Fixpoint total (k : edge) (st : list (edge * nat)) : nat :=
  match st with [] => O | (e, t) :: r => ((if same_und e k then S t else O) + total k r)%nat end.
Fixpoint entries (k : edge) (st : list (edge * nat)) : nat :=
  match st with [] => O | (e, t) :: r => ((if same_und e k then 1 else 0) + entries k r)%nat end.
Fixpoint uses (k : edge) (es : list (Z * Z)) : nat :=
  match es with [] => O | e :: r => ((if same_und e k then 1 else 0) + uses k r)%nat end.

Lemma eqe_eq a b : eqe a b = true <-> a = b.
Proof. destruct a, b; unfold eqe; cbn. rewrite andb_true_iff, !Z.eqb_eq. split; [intros [-> ->]; reflexivity| intros H; inversion H; auto]. Qed.
Lemma eqe_refl a : eqe a a = true. Proof. apply eqe_eq. reflexivity. Qed.

Lemma same_und_of_eqe e k k' : eqe e k = true -> same_und e k' = same_und k k'.
Proof. intros H. apply eqe_eq in H. subst. reflexivity. Qed.

Lemma same_und_swap_l k k' : same_und (swap k) k' = same_und k k'.
Proof.
  destruct k as [a b], k' as [c d]. unfold same_und, eqe, swap; cbn.
  destruct (a =? c) eqn:E1, (b =? d) eqn:E2, (b =? c) eqn:E3, (a =? d) eqn:E4; reflexivity.
Qed.

Lemma total_app k a b : total k (a ++ b) = (total k a + total k b)%nat.
Proof. induction a as [|[e t] r IH]; [reflexivity|]. cbn. rewrite IH. lia. Qed.
Lemma entries_app k a b : entries k (a ++ b) = (entries k a + entries k b)%nat.
Proof. induction a as [|[e t] r IH]; [reflexivity|]. cbn. rewrite IH. lia. Qed.

Lemma bump_some k st s : bump k st = Some s ->
  forall k', total k' s = (total k' st + (if same_und k k' then 1 else 0))%nat /\ entries k' s = entries k' st.
Proof.
  revert s. induction st as [|[e t] r IH]; intros s H k'; [discriminate|].
  cbn [bump] in H. destruct (eqe e k) eqn:E.
  - injection H as <-. cbn. rewrite (same_und_of_eqe e k k' E). destruct (same_und k k'); split; lia.
  - destruct (bump k r) as [r'|] eqn:B; [|discriminate]. injection H as <-.
    destruct (IH r' eq_refl k') as [T N]. cbn. rewrite T, N. split; lia.
Qed.

Lemma bump_none k st : bump k st = None -> forall e t, In (e, t) st -> eqe e k = false.
Proof.
  induction st as [|[e0 t0] r IH]; intros H e t Hin; [destruct Hin|].
  cbn [bump] in H. destruct (eqe e0 k) eqn:E; [discriminate|].
  destruct (bump k r) eqn:B; [discriminate|]. destruct Hin as [Hin|Hin]; [inversion Hin; subst; exact E| eapply IH; eauto].
Qed.

Lemma entries_zero k st : (forall e t, In (e, t) st -> same_und e k = false) -> entries k st = O /\ total k st = O.
Proof.
  induction st as [|[e t] r IH]; intros H; [split; reflexivity|]. cbn.
  rewrite (H e t (or_introl eq_refl)). destruct IH as [A B]; [intros e' t' Hin; apply (H e' t'); right; exact Hin|].
  rewrite A, B. split; reflexivity.
Qed.

(* undirected equality, propositionally *)
Definition norm (e : edge) : edge := (Z.min (fst e) (snd e), Z.max (fst e) (snd e)).
Lemma same_und_iff a b : same_und a b = true <-> norm a = norm b.
Proof.
  destruct a as [a1 a2], b as [b1 b2]. unfold same_und, eqe, swap, norm; cbn.
  rewrite orb_true_iff, !andb_true_iff, !Z.eqb_eq. split.
  - intros [[-> ->]|[-> ->]]; [reflexivity| f_equal; lia].
  - intros H. inversion H. lia.
Qed.
Lemma same_und_norm_r e k k' : norm k = norm k' -> same_und e k = same_und e k'.
Proof.
  intros H. destruct (same_und e k) eqn:A, (same_und e k') eqn:B; auto.
  - apply same_und_iff in A. assert (same_und e k' = true) by (apply same_und_iff; congruence). congruence.
  - apply same_und_iff in B. assert (same_und e k = true) by (apply same_und_iff; congruence). congruence.
Qed.
Lemma total_norm k k' st : norm k = norm k' -> total k st = total k' st.
Proof. intros H. induction st as [|[e t] r IH]; [reflexivity|]. cbn. rewrite IH, (same_und_norm_r e k k' H). reflexivity. Qed.
Lemma entries_norm k k' st : norm k = norm k' -> entries k st = entries k' st.
Proof. intros H. induction st as [|[e t] r IH]; [reflexivity|]. cbn. rewrite IH, (same_und_norm_r e k k' H). reflexivity. Qed.

(* one step: the weight of every proper undirected edge grows by exactly its use, never more than one entry *)
Lemma add_spec st p c k : fst k <> snd k ->
  total k (add st p c) = (total k st + (if same_und (p, c) k then 1 else 0))%nat /\
  ((entries k st <= 1)%nat -> (entries k (add st p c) <= 1)%nat).
Proof.
  intros Hk. unfold add.
  destruct (bump (c, p) st) as [s|] eqn:B1.
  - destruct (bump_some _ _ _ B1 k) as [T N]. rewrite T, N.
    change (c, p) with (swap (p, c)). rewrite same_und_swap_l. split; auto.
  - destruct (bump (p, c) st) as [s|] eqn:B2.
    + destruct (bump_some _ _ _ B2 k) as [T N]. rewrite T, N. split; auto.
    + destruct (p =? c) eqn:E.
      * apply Z.eqb_eq in E. subst c. split; [|auto].
        assert (F : same_und (p, p) k = false).
        { destruct (same_und (p, p) k) eqn:S; [|reflexivity]. apply same_und_iff in S.
          unfold norm in S; cbn in S. inversion S. exfalso. apply Hk. lia. }
        rewrite F. lia.
      * rewrite total_app, entries_app. cbn [total entries]. split; [lia|].
        intros Hle. destruct (same_und (p, c) k) eqn:S; [|lia].
        apply same_und_iff in S.
        assert (Z0 : entries (p, c) st = O).
        { apply entries_zero. intros e t Hin. unfold same_und.
          rewrite (bump_none _ _ B2 e t Hin). change (swap (p, c)) with (c, p). rewrite (bump_none _ _ B1 e t Hin). reflexivity. }
        rewrite <- (entries_norm (p, c) k st S). rewrite Z0. lia.
Qed.

Definition Inv (st : list (edge * nat)) (es : list (Z * Z)) : Prop :=
  (forall k, fst k <> snd k -> total k st = uses k es /\ (entries k st <= 1)%nat) /\
  (forall e t, In (e, t) st -> fst e <> snd e).

Lemma uses_app k a b : uses k (a ++ b) = (uses k a + uses k b)%nat.
Proof. induction a as [|e r IH]; [reflexivity|]. cbn. rewrite IH. lia. Qed.

Lemma bump_keys k st s : bump k st = Some s -> forall e t, In (e, t) s -> exists t', In (e, t') st.
Proof.
  revert s. induction st as [|[e0 t0] r IH]; intros s H e t Hin; [discriminate|]. cbn [bump] in H.
  destruct (eqe e0 k).
  - injection H as <-. destruct Hin as [Hin|Hin]; [inversion Hin; subst; exists t0; left; reflexivity| exists t; right; exact Hin].
  - destruct (bump k r) as [r'|] eqn:B; [|discriminate]. injection H as <-.
    destruct Hin as [Hin|Hin]; [inversion Hin; subst; exists t; left; reflexivity|].
    destruct (IH r' eq_refl e t Hin) as [t' Ht']. exists t'. right. exact Ht'.
Qed.

Lemma add_inv st es p c : Inv st es -> Inv (add st p c) (es ++ [(p, c)]).
Proof.
  intros [I1 I2]. split.
  - intros k Hk. destruct (I1 k Hk) as [T N]. destruct (add_spec st p c k Hk) as [T' N'].
    rewrite T', uses_app, T. cbn [uses]. split; [lia| apply N'; exact N].
  - intros e t Hin. unfold add in Hin.
    destruct (bump (c, p) st) as [s|] eqn:B1; [destruct (bump_keys _ _ _ B1 e t Hin) as [t' H]; eapply I2; eauto|].
    destruct (bump (p, c) st) as [s|] eqn:B2; [destruct (bump_keys _ _ _ B2 e t Hin) as [t' H]; eapply I2; eauto|].
    destruct (p =? c) eqn:E; [eapply I2; eauto|].
    apply in_app_or in Hin. destruct Hin as [Hin|[Hin|[]]]; [eapply I2; eauto|].
    inversion Hin; subst. cbn. apply Z.eqb_neq in E. exact E.
Qed.

Lemma add_all_inv es' : forall st es, Inv st es -> Inv (add_all st es') (es ++ es').
Proof.
  induction es' as [|[p c] r IH]; intros st es H; cbn [add_all fold_left].
  - rewrite app_nil_r. exact H.
  - replace (es ++ (p, c) :: r) with ((es ++ [(p, c)]) ++ r) by (rewrite <- app_assoc; reflexivity).
    apply IH. apply add_inv. exact H.
Qed.

Lemma edge_info_inv_gen faces : forall st es, Inv st es ->
  Inv (fold_left (fun st f => add_all st (cyc_pairsZ f)) faces st) (es ++ all_pairs faces).
Proof.
  induction faces as [|f r IH]; intros st es H; cbn [fold_left all_pairs flat_map].
  - rewrite app_nil_r. exact H.
  - rewrite app_assoc. apply IH. apply add_all_inv. exact H.
Qed.

Theorem edge_info_inv faces : Inv (edge_info faces) (all_pairs faces).
Proof.
  apply (edge_info_inv_gen faces [] []). split; [intros k _; split; [reflexivity| cbn; lia]| intros e t []].
Qed.

(* user-facing corollaries *)
Lemma entry_total e t st : In (e, t) st -> (S t <= total e st)%nat /\ (1 <= entries e st)%nat.
Proof.
  induction st as [|[e0 t0] r IH]; intros H; [destruct H|]. cbn.
  destruct H as [H|H].
  - inversion H; subst. assert (S : same_und e e = true) by (apply same_und_iff; reflexivity). rewrite S. lia.
  - destruct (IH H). destruct (same_und e0 e); lia.
Qed.

Lemma single_entry_total e t st : In (e, t) st -> (entries e st <= 1)%nat -> total e st = S t.
Proof.
  induction st as [|[e0 t0] r IH]; intros H Hle; [destruct H|]. cbn in *.
  destruct H as [H|H].
  - inversion H; subst. assert (S : same_und e e = true) by (apply same_und_iff; reflexivity). rewrite S in *.
    assert (entries e r = O) by lia.
    assert (Z0 : total e r = O).
    { clear -H0. induction r as [|[e1 t1] r IH]; [reflexivity|]. cbn in *. destruct (same_und e1 e); [lia| apply IH; lia]. }
    lia.
  - destruct (same_und e0 e) eqn:S.
    + destruct (entry_total e t r H). lia.
    + apply IH; [exact H| lia].
Qed.

(* (1) the type of every listed edge is (number of faces using it) - 1 *)
Theorem edge_type_is_incidence_count faces e t :
  In (e, t) (edge_info faces) -> S t = uses e (all_pairs faces).
Proof.
  intros H. destruct (edge_info_inv faces) as [I1 I2].
  destruct (I1 e (I2 e t H)) as [T N]. rewrite <- T. symmetry. apply single_entry_total; assumption.
Qed.

(* (2) every undirected edge is listed at most once, and exactly once if some face uses it *)
Theorem edge_listed_once faces k : fst k <> snd k ->
  (entries k (edge_info faces) <= 1)%nat /\ ((0 < uses k (all_pairs faces))%nat -> entries k (edge_info faces) = 1%nat).
Proof.
  intros Hk. destruct (edge_info_inv faces) as [I1 _]. destruct (I1 k Hk) as [T N]. split; [exact N|].
  intros U. destruct (entries k (edge_info faces)) as [|[|n]] eqn:E; [|reflexivity| lia].
  exfalso. assert (total k (edge_info faces) = O); [|lia].
  clear -E. induction (edge_info faces) as [|[e1 t1] r IH]; [reflexivity|]. cbn in *. destruct (same_und e1 k); [lia| apply IH; lia].
Qed.

(* (3) solid <-> every edge is used by exactly two faces *)
Definition is_solid (st : list (edge * nat)) : bool := forallb (fun p => Nat.eqb (snd p) 1) st.
Theorem is_solid_iff faces : is_solid (edge_info faces) = true <->
  forall e t, In (e, t) (edge_info faces) -> uses e (all_pairs faces) = 2%nat.
Proof.
  unfold is_solid. rewrite forallb_forall. split.
  - intros H e t Hin. specialize (H _ Hin). cbn in H. apply Nat.eqb_eq in H. subst.
    rewrite <- (edge_type_is_incidence_count faces e 1 Hin). reflexivity.
  - intros H [e t] Hin. cbn. apply Nat.eqb_eq. pose proof (edge_type_is_incidence_count faces e t Hin). rewrite (H e t Hin) in H0. lia.
Qed.
