(* C07 -- edge classes of meshes and polyfaces are the independent incidence count; solidity.
   About model/EdgeInfo.v (hand model of the edge loop, tied by correspondence).  PARTIAL: the ray-parity
   outward test (get_outward_faces) is validated against the exact divergence volume, not proved. *)
From Coq Require Import ZArith List Bool.
From LBG Require Import EdgeInfo.
Import ListNotations.
Open Scope Z_scope.

Theorem C07_edge_type_is_incidence_count : forall faces e t,
  In (e, t) (edge_info faces) -> S t = uses e (all_pairs faces).
Proof. exact edge_type_is_incidence_count. Qed.
Print Assumptions C07_edge_type_is_incidence_count.

Theorem C07_every_edge_listed_exactly_once : forall faces k, fst k <> snd k ->
  (entries k (edge_info faces) <= 1)%nat /\ ((0 < uses k (all_pairs faces))%nat -> entries k (edge_info faces) = 1%nat).
Proof. exact edge_listed_once. Qed.
Print Assumptions C07_every_edge_listed_exactly_once.

Theorem C07_solid_iff_every_edge_used_twice : forall faces, is_solid (edge_info faces) = true <->
  forall e t, In (e, t) (edge_info faces) -> uses e (all_pairs faces) = 2%nat.
Proof. exact is_solid_iff. Qed.
Print Assumptions C07_solid_iff_every_edge_used_twice.

(* a tetrahedron is solid; removing a face makes exactly its three edges naked; a duplicate makes them non-manifold *)
Example C07_tetrahedron :
  let tet := [[0; 1; 2]; [0; 3; 1]; [1; 3; 2]; [2; 3; 0]] in
  is_solid (edge_info tet) = true /\
  map snd (edge_info (tl tet)) = [0; 1; 1; 0; 1; 0]%nat /\
  map snd (edge_info (hd [] tet :: tet)) = [2; 2; 2; 1; 1; 1]%nat.
Proof. vm_compute. repeat split; reflexivity. Qed.
