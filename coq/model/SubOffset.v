(* SubOffset.v -- hand models for C19, each tied to the implementation by the correspondence of harness/props/C19.py:
   (1) the vertex move of Polygon2D.offset as a function of the unit direction to the previous vertex and (cos, sin) of the half
       clockwise angle; (2) the perimeter quads of Polygon2D.perimeter_core_by_offset; (3) the scalar layout computed by
       Face3D.sub_rects_from_rect_ratio / sub_rects_from_rect_dimensions (counts, widths, heights, positions). *)
From LBG Require Import Base QGeom.
Open Scope Q_scope.

(* ---------------------------------------------------------------- (1) offset vertex *)
(* rotation by -a with (c, s) = (cos a, sin a): Vector2D._rotate(vec, -a) *)
Definition rotm (c s : Q) (v : V2) : V2 := mkV2 (c * v2x v + s * v2y v) (- s * v2x v + c * v2y v).
(* counter-clockwise polygon: m_vec = v1.rotate(-ang).normalize() * (distance / sin(ang)), u1 = v1 / |v1| *)
Definition offset_move (u1 : V2) (c s d : Q) : V2 := smul2 (d / s) (rotm c s u1).

(* ---------------------------------------------------------------- (2) perimeter quads *)
(* Polygon2D.segments order: (v0,v1), (v1,v2), ..., (v_{n-1}, v0) *)
Definition segs {A} (l : list A) : list (A * A) :=
  match l with [] => [] | x :: r => combine l (r ++ [x]) end.
(* pts = (out_seg.p1, out_seg.p2, in_seg.p2, in_seg.p1) over zip(polygon.segments, core.segments); L pairs outer with inner vertices *)
Definition quad (x y : V2 * V2) : list V2 := [fst x; fst y; snd y; snd x].
Definition quads (L : list (V2 * V2)) : list (list V2) := map (fun p => quad (fst p) (snd p)) (segs L).

(* ---------------------------------------------------------------- (3) sub-rectangle layout *)
(* Python 3 round() (half to even) is Base.py_round *)

(* a regular array of equal rectangles in the parent rectangle's own coordinates (x along the base, y up):
   cols columns whose centres are  c0 + j*pitch,  rows rows whose bottoms are y0 + i*rpitch, each w x h *)
Record layout := { cols : Z; rows : Z; lw : Q; lh : Q; c0 : Q; pitch : Q; y0 : Q; rpitch : Q }.

Definition Qminf (a b : Q) : Q := if Qlt_bool a b then a else b.

Definition clamp_vsep (vsep maxv : Q) : Q :=
  if Qeq_bool vsep 0 then 0 else if Qlt_bool vsep 0 || Qlt_bool maxv 0 then 0 else if Qlt_bool maxv vsep then maxv else vsep.

Definition rects_ratio (base height ratio srh0 sill0 hsep vsep0 : Q) : layout :=
  let target := base * height * ratio in
  let max_area_subdiv := base * (98#100) * srh0 in
  let max_subh := (98#100) * height in
  let srh := if Qlt_bool max_subh srh0 then max_subh else srh0 in
  let min_sill := (1#100) * height in
  let sill := if Qlt_bool sill0 min_sill then min_sill else sill0 in
  if Qlt_bool target max_area_subdiv then
    let n := if Qlt_bool (hsep / 2) base then py_round (base / hsep) else 1%Z in
    let max_sill_h := height * (99#100) - srh in
    let sy := if Qlt_bool sill max_sill_h then sill else max_sill_h in
    let segw := base / inject_Z n in
    let w := (target / srh) / inject_Z n in
    let vsep := clamp_vsep vsep0 (height - sill - srh - (2#100) * height) in
    if Qeq_bool vsep 0 then
      {| cols := n; rows := 1; lw := w; lh := srh; c0 := segw / 2; pitch := segw; y0 := sy; rpitch := 0 |}
    else
      {| cols := n; rows := 2; lw := w; lh := srh / 2; c0 := segw / 2; pitch := segw; y0 := sy; rpitch := srh / 2 + vsep |}
  else
    let ht := target / (base * (98#100)) in
    let max_sill_h := height * (99#100) - ht in
    let sy := if Qlt_bool sill max_sill_h then sill else max_sill_h in
    let vsep := clamp_vsep vsep0 (height - sill - ht - (2#100) * height) in
    if Qeq_bool vsep 0 then
      {| cols := 1; rows := 1; lw := (98#100) * base; lh := ht; c0 := base / 2; pitch := 0; y0 := sy; rpitch := 0 |}
    else
      {| cols := 1; rows := 2; lw := (98#100) * base; lh := ht / 2; c0 := base / 2; pitch := 0; y0 := sy; rpitch := ht / 2 + vsep |}.

Definition layout_area (l : layout) : Q := inject_Z (cols l) * inject_Z (rows l) * lw l * lh l.
(* extent of the whole array *)
Definition layout_left (l : layout) : Q := c0 l - lw l / 2.
Definition layout_right (l : layout) : Q := c0 l + inject_Z (cols l - 1) * pitch l + lw l / 2.
Definition layout_bottom (l : layout) : Q := y0 l.
Definition layout_top (l : layout) : Q := y0 l + inject_Z (rows l - 1) * rpitch l + lh l.
