NOTES = ('All checks: ./check <id>; regenerates coq/gen/*.v from /repo, rebuilds the theorems, runs model/implementation '
         'correspondence inside Coq (vm_compute) and an exact-rational search of the implementation. See DESIGN.md.')
NOT_APPLICABLE = {}
T_Q = ('machine-checked Coq theorems over Q about definitions generated from the source by a fail-closed translator; '
       'vm_compute correspondence; exact-rational search for replays')
CLAIMED = {
    'C02': dict(
        text='The point/vector kernels every transform is built from are proved (for every angle, axis, normal, factor and '
             'point, no bound) to be the stated isometry / similarity (inner products, orientation, Rodrigues/Householder form, '
             'inverses, k^2 / k^3 laws); the theorems are about Gallina regenerated from pointvector.py on each run. How the '
             'shape classes compose these kernels is proved for segments and rays in 2D and 3D (every transform maps the point at '
             'parameter t onto the point at parameter t of the image), spheres (surface points go to surface points; radius times '
             'the factor), cylinders / cones (the axis line is carried pointwise, radius scaled, opening angle kept) and planes (for an '
             'orthonormal frame each of move / rotate / rotate_xy / reflect / scale / flip returns an orthonormal frame whose normal, x axis '
             'and origin are the images of the old ones and which contains the image of every point of the old plane). '
             'Per-class behaviour of all 21 classes x 5 transforms is searched against an independent exact reference.',
        note='Trusted: Coq kernel, py2coq translator, harness. cos/sin/sqrt enter as function parameters with pointwise hypotheses '
             '(cos^2+sin^2==1, sqrt(x)^2==x). Class-level composition (which kernel is applied to which field) is proved only for the '
             'classes listed in props/C02.v, the rest is validated by the exploration.',
        technique=T_Q),
    'C11': dict(
        text='For segment/ray x segment/ray (all four operand typings), segment/ray x plane, plane x plane and plane x sphere the '
             'translated routines are proved sound (result on both operands, parameters in range), complete (every transversal common '
             'point with admissible parameters is returned; d<>0) and symmetric under operand swap, for all inputs; the isclose guard of '
             'the segment variant is proved never to reject in exact arithmetic; for line x sphere the generated routine is proved to solve '
             'the exact quadratic and both returned points to lie on the sphere and the line. Arc, polygon/polyline, face (ray hits; plane cuts '
             'of holed and concave faces against exactly sorted and paired crossings), polyface (also L/U prisms whose faces share normals) '
             'and arc/plane routines are searched against exact-rational configuration analysis.',
        note='Trusted: Coq kernel, py2coq, harness. Ideal (exact rational) semantics of floats; sqrt pointwise hypothesis in the sphere '
             'theorem. Composite routines (Polygon2D/Face3D/Polyface3D/Arc) are validated, not proved.',
        technique=T_Q),
    'C12': dict(
        text='closest_point on segment / ray / line (2D and 3D) and on a plane: proved for every object and query that the result lies '
             'on the object (admissible parameter) and that no admissible point is closer (squared distance), plus distance zero for '
             'queries on the object; the generated segment/plane routine is proved to return the segment point of least |height| over the '
             'plane. Arc, polygon, segment-segment and pole_of_inaccessibility (also asked repeatedly on one outline with and without holes) '
             'are searched against exact clamped projections, 200-400 samples and an independent branch-and-bound search (1e-3) for the pole.',
        note='Trusted: Coq kernel, py2coq, harness. Squared-distance form (sqrt monotone). Lipschitz continuity and the polylabel '
             'bound are validated only.',
        technique=T_Q),
    'C01': dict(
        text='Polygon2D.area / is_clockwise (translated from the source loop) are proved equal to the shoelace sum of the vertex loop '
             'for every vertex count; the sum is proved independent of the start vertex, negated by reversal, invariant under '
             'translation, multiplied by det M under any linear map (rotation, mirror, scale k^2) and equal to the triangle-fan and '
             'trapezoid definitions; Polygon2D.perimeter (generated, through its segment list) is proved to be the cyclic sum of the edge lengths, '
             'closing edge included, independent of the start vertex and of the direction; Face3D.area is proved to be |Newell vector . normal|/2 '
             'for any orthonormal plane frame; the generated mesh '
             'kernels: Mesh2D._get_area is the absolute shoelace value, a plane-embedded 3D triangle has its planar area, the diagonal-cut quad '
             'centroid is the polygon centroid; for the hand model HoleMerge.v of Polygon2D._merge_boundary_and_hole (run against it for every '
             'bridge tried) the merged loop keeps the signed area sum boundary + hole(s) whatever vertices the bridge joins. Perimeter, '
             'centroids, holes, meshes, prism volumes and closed forms are searched against exact Fraction references. Sphere / Cylinder / Cone area, volume, height, radius and slant height (generated) are proved to be the closed forms in radius and axis length, with k^2 / k^3 scaling under the generated scale.',
        note='Trusted: Coq kernel, py2coq, harness. Face3D model covers faces without holes (holes validated). Shoelace/Newell are the '
             'reference definition of area; sqrt-based lengths are validated only.',
        technique=T_Q),
    'C06': dict(
        text='Plane.__init__ is proved to build an orthonormal right-handed frame in both branches of its Z-axis test; the 2D<->3D maps '
             'are proved mutually inverse on the plane; the Face3D constructor is proved never to store a clockwise boundary for every '
             'vertex list and every (possibly opposing) user plane; the projected signed area is proved equal to area vector . normal for '
             'any loop, planar or not (right-hand rule); for a face built without a plane, the three numbers _plane_from_vertices '
             'accumulates over its triangle fan are proved to be the components of the area (Newell) vector of the whole loop, for every '
             'vertex count and start vertex (collinear or re-entrant first corners included); flip reverses the boundary and flips the '
             'plane. All constructors, holes, '
             'near-Z planes and from_dict/from_array are searched against exact references.',
        note='Trusted: Coq kernel, py2coq, harness. sqrt enters as a function parameter, assumed a morphism for == and exact on the '
             'radicands used (pointwise). Face3D model covers faces without holes.',
        technique=T_Q),
    'C10': dict(
        text='The min/max scan shared by every vertex-list class (translated with its if/elif) is proved, for any number of '
             'vertices, to return a box with min<=max that contains every vertex and whose four sides are each attained by a vertex; '
             'center is proved the midpoint; segment/ray boxes are proved to contain every point of the segment; the overlap '
             'predicate is proved symmetric and equal to the exact interval gap test; bounding_domain_x / _y of a collection are proved '
             'to be the hull of the member boxes (contain each, both ends attained by a member). Arcs (every angle pair), solids, 3D classes, '
             'collections and rotated frames are searched against dense samples / closed forms.',
        note='Trusted: Coq kernel, py2coq, harness. Arc boxes are translated and run in correspondence but their correctness is '
             'validated by sampling, not proved. Known finding: Arc3D partial-arc boxes.',
        technique=T_Q),
    'C04': dict(
        text='The five 16-entry fill-selection tables and the index/fill decoding of __select are regenerated from boolean.py and proved '
             '(exhaustively over all 16 fill states: a complete proof on this finite domain) to be exactly the truth tables of union, '
             'intersection, difference, reverse difference and xor, with the inversion flags; a segment is proved kept iff the result '
             'indicator changes across it. The cell-set specification (CellSpec.v) is proved to obey the set and area laws '
             '(inclusion-exclusion, split partitions, n-ary folds). The Martinez sweep and the chainer are NOT modelled: their output is '
             'compared with the Coq specification (vm_compute) on lattice polygons exactly, and with exact point membership and area '
             'identities on general-position polygons.',
        note='Partial: the theorem covers the decision tables and the specification; the sweep is validated against the specification on '
             'generated inputs only. Trusted: Coq kernel, tools/tables.py, harness.',
        technique='machine-checked Coq proof of the selection tables and of the cell-set specification; vm_compute comparison of the '
                  'unmodelled sweep against the specification; exact-rational search'),
    'C03': dict(
        text='A generic Coq theorem shows by induction over histories of any length that a memo slot whose steps are sound always observes '
             'the fresh value. The transfer tables (which slot each copy/transform carries over and how) are regenerated from the 8 source '
             'files on every run and checked exhaustively (vm_compute) against a law table; for Polygon2D\'s signed area the laws are proved '
             'from the shoelace theorems, including that the repaired reverse defect is unsound. Every derived property after exhaustive '
             'short and sampled long histories is compared with a fresh object. A generated audit proves that no member taking parameters stores on its receiver (memo slots are filled by parameter-free members only), and the generated Plane.move is proved to keep cached plane coordinates valid.',
        note='Trusted: Coq kernel, tools/xfer.py (cross-checked dynamically against real objects), harness. Laws other than the '
             'Polygon2D area/orientation ones are a hand-written specification validated by the history runner. Known finding: '
             'Face3D.mesh_grid vertex normals of unused vertices.',
        technique=T_Q),
    'C05': dict(
        text='Partial. Proved about the generated earcut predicates: the area sign is the orientation, _point_in_triangle is the three '
             'barycentric sign tests (which sum to the triangle area), _intersects is true iff the segments cross properly (general '
             'position) - this theorem does not compile against the pinned tree\'s comparison chain, which was repaired - and the '
             'elementary steps conserve area for rings of any length: ear removal, convex fan, diagonal split. The test that selects the '
             'fan shortcut, Polygon2D.is_convex (generated from the source, its break loops translated as flag-guarded folds), is proved to '
             'answer True exactly when no vertex - first and last included - turns against the orientation of the loop. Containment, '
             'non-overlap and edge-manifoldness of every produced triangulation are decided by an exact-rational tiling checker on '
             'generated shapes up to 120 vertices and 6 holes (hashed path included), integer-grid shapes with up to 5 holes whose '
             'vertices are often exactly level / collinear with each other, and staggered holes with overlapping x-extents. One known '
             'finding: a hole bridge running through a collinear input vertex leaves a T-junction (exact tiling, but an edge not shared '
             'edge-to-edge).',
        note='Partial: earcut control flow (linked list, z-order hash, hole bridging) is not modelled; point-set containment / '
             'non-overlap are validated, not proved. Trusted: Coq kernel, py2coq, harness.',
        technique=T_Q),
    'C07': dict(
        text='Partial. For the edge loop shared by MeshBase._compute_edge_info and Polyface3D.__init__ (hand model EdgeInfo.v, tied '
             'by vm_compute correspondence on random tri/quad face lists) it is proved for every face list that each undirected edge is '
             'listed exactly once, that its type + 1 is the number of face incidences, and that is_solid holds iff every edge is used '
             'exactly twice. For the volume formula (hand model Volume.v of Polyface3D.volume: faces with hole loops, compared with the '
             'implementation on shuffled / flipped / re-started solids to 1e-9) it is proved for every closed consistently oriented '
             'surface - every directed edge matched by its opposite - that the value is translation invariant, does not depend on '
             'which vertex (or plane point) each face starts at, is multiplied by det M under any linear map (k^3 for scaling), is '
             'the determinant for a tetrahedron and the sum of the pieces for every solid assembled from tetrahedra glued along '
             'coincident opposite faces. Outward orientation and the reaction to removed/duplicated faces are searched on shuffled, '
             'flipped, re-started closed solids against the exact divergence volume and an independent incidence count. The index bookkeeping of from_offset_face (generated helper) is proved: cyclic wall quads and edges at any start index, indices inside the loop block.',
        note='Partial: get_outward_faces (ray parity) and from_faces welding are validated, not proved. Trusted: Coq kernel, the hand '
             'model and its correspondence, harness.',
        technique='machine-checked Coq proof about a hand-written executable model + vm_compute correspondence with the '
                  'implementation; exact-rational search'),
    'C08': dict(
        text='Partial. Proved about the generated code: is_point_inside is the parity of the number of edges whose crossing test '
             'succeeds (any vertex count); the crossing test is exactly "closed segment meets closed ray" (sound and complete for '
             'non-parallel operands, so the documented vertex fringe case is inside the theorem); the bound-rect variant and '
             'point_relationship are the stated case splits; is_point_on_edge is "some segment within the tolerance". That parity '
             'equals containment (Jordan curve theorem) is not proved: all containment methods, on-edge queries, polygon_relationship / '
             'does_polygon_touch (against unit-cell sets), Face3D.is_point_on_face and Polyface3D.is_point_inside are searched '
             'against exact winding-number containment.',
        note='Partial: Jordan curve theorem not proved; 3D containment validated only. Trusted: Coq kernel, py2coq, harness.',
        technique=T_Q),
    'C17': dict(
        text='The accumulating-parameter loops of LineSegment2D/3D.subdivide_evenly and Arc2D.subdivide_evenly are modelled bit-exactly '
             'in IEEE binary64 (PrimFloat) and enumerated completely over the domain the property states: for every n in 1..500 exactly '
             'n+1 points are produced (and the unrepaired loop is proved short for n=9); the model is compared with the implementation '
             'for all 500 n on every run. Over Q, point_at is proved to be the point at fraction t (squared distance t^2 |v|^2, ends at '
             't=0,1) and split_with_plane is proved to return consecutive collinear pieces meeting on the plane whose direction vectors '
             'are u v and (1-u) v. The source while-loop of LineSegment2D/3D.subdivide_evenly itself (translated with explicit fuel) is proved, '
             'for every n >= 1 in exact arithmetic, to return the start point followed by the points at k/n, k = 1..n (the end-point repair '
             'never fires: short results are purely a rounding effect). Arcs, polylines, subdivide(distances), to_polyline and arc '
             'splitting (incl. wrap-around arcs cut twice) are searched. point_at_length / point_at_angle / length of arcs and segments (generated) are proved to be the arc-length parametrisation, the 3D arc being the plane image of its 2D arc.',
        note='Trusted: Coq kernel incl. its primitive floats (Print Assumptions lists the PrimFloat/PrimInt63 primitives), hand model '
             'FloatLoops.v + its exhaustive correspondence, py2coq, harness.',
        technique='machine-checked Coq proof: exhaustive vm_compute over the finite stated domain with a bit-exact PrimFloat model, and '
                  'theorems over Q about generated definitions'),
    'C15': dict(
        text='Partial. The Polygon2D clean-up code is translated (the remove_colinear scan with its skip / first_skip / seam patch '
             'included) and run bit-for-bit against the implementation on decorated loops. Proved for every input: '
             'remove_duplicate_vertices is exactly the filter "not within tolerance of the cyclic predecessor", its result is a '
             'sub-list (original vertices, original order); every vertex returned by remove_colinear_vertices is an input vertex; '
             'Polyline2D.remove_colinear_vertices (generated; index loop with its skip counter, run against the implementation on '
             'decorated chains) keeps the two end points and in between is exactly the scan that keeps a vertex iff the triangle '
             '(last kept vertex, vertex, next original vertex) has twice-area >= tolerance - so it returns original vertices only, and '
             'all of them when each is a corner. '
             'That all exactly-collinear / duplicated points are removed, all genuine corners kept for every rotation of the list and '
             'both orientations, area/orientation preserved and a second pass changes nothing (as a cyclic sequence) is searched '
             'on Polygon2D, Face3D and Polyline2D/3D.',
        note='Partial: corner preservation / idempotence are validated, not proved. Trusted: Coq kernel, py2coq, harness.',
        technique=T_Q),
    'C13': dict(
        text='Partial (Python object protocol). From tables regenerated from the source it is proved (finite, exhaustive) that for all '
             '21 types every field written by to_dict is read by from_dict and vice versa, the type tag is the class name, the '
             'dispatcher registry maps exactly these 21 tags to their classes, == accepts only the same class (point/vector by design), '
             'and that every class keys equality and hash on its defining values themselves (injective key; none on hash() values of '
             'coordinates, for which the collision hash(-1.0) = hash(-2.0) is proved to identify different coordinate lists - the repaired defect). '
             'Bitwise round trips through dict / JSON text / dispatcher / arrays, duplicate(), reflexivity, symmetry, hash agreement and '
             'inequality under a nudged coordinate are searched on full-precision instances of all 21 types.',
        note='Partial: real-object behaviour is validated, not proved; mesh colours cannot be exercised (ladybug.color absent). '
             'The hash-keyed equality of 12 classes was repaired (the collision witnesses -1.0 / -2.0 stay in the search).',
        technique='machine-checked Coq proof (exhaustive over tables regenerated from the source) + exact search on real objects'),
    'C14': dict(
        text='Partial (lives partly in the runtime). Proved: an audit table regenerated from the source shows no call to the wall clock, '
             'random or id() anywhere in the package and lists the four direct set iterations (each sorted afterwards or over small '
             'ints); sorting after a set is order-free for any permutation; a counter tie-break makes stamps positions; reading a memo '
             'leaves data and observation unchanged. Enforced dynamically: an introspected sweep over ~600 public callables with deep '
             'before/after snapshots of receiver, arguments and caller lists and a repeated call, and a workload digest compared across '
             'PYTHONHASHSEED 0/1/2/random and under a frozen and a backwards-running clock. Generated audit tables of all state kept between calls (receiver writes in parameterised members, class / module state, argument writes of public functions) are proved empty but for the one documented case; every property is also read after every other one and compared with an untouched equal object.',
        note='Partial: absence of mutation is a dynamic check (a functional model is pure by construction). Trusted: Coq kernel, '
             'tools/audit.py, harness.',
        technique='machine-checked Coq proof of the logical part over an audit table regenerated from the source; dynamic snapshot sweep'),
    'C18': dict(
        text='Partial. For the hand model of _polyline.py (_group_vertices / _build_polyline / _connect_seg_to_poly with exact end-point '
             'matching; run against Polyline2D.join_segments vertex for vertex on integer soups) it is proved for every input list, any '
             'order and orientation, that each input segment is used exactly once as an undirected edge of the returned chains and that the '
             'result is maximal (no edge of a later chain, and no unused segment while a chain grows, touches an end of an earlier chain). Total '
             'length, maximality (as many results as chains were cut, with jitter below tol/4) in 2D and 3D, and that '
             'joined_intersected_boundary / join_coplanar_faces of lattice tilings (voids, T-junctions) enclose exactly the union of '
             'the tiles (unit-cell sets) are searched, also far from the origin and with tiles stretched 150..400 : 1. The end-point matching test (generated is_equivalent) is proved absolute, symmetric and position independent.',
        note='Partial: maximality under the non-transitive tolerance and outline extraction are validated, not proved. Trusted: Coq '
             'kernel, hand model + correspondence, harness.',
        technique='machine-checked Coq proof about a hand-written executable model + vm_compute correspondence; exact search'),
    'C20': dict(
        text='Partial. Proved for the generated grid kernels (Mesh2D._grid_faces / _grid_vertices, translated from the source on every '
             'run) for every grid size: face and vertex lists equal the closed form; face number i*ny+j has indices (c, c+ny+1, c+ny+2, '
             'c+1) with c = i(ny+1)+j and vertex number i(ny+1)+j lies at base + (i dx, j dy), so every face is the dx x dy cell (i,j), '
             'all cells are congruent and there are nx*ny of them; for the hand model MeshOps.v of _remove_vertices / _remove_faces_only / '
             '_transfer_face_centroids_areas (run against Mesh2D/3D.remove_vertices and remove_faces_only): a surviving face references the '
             'same points as before, a face survives exactly when all its vertices do, per-face data filtered by the face pattern stays '
             'aligned with the surviving faces; the generated Mesh2D._quad_to_triangles (its break loop translated as a flag-guarded fold) is '
             'proved to take the diagonal 0-2 without further test exactly when all four corners of the quad turn the same way, and then '
             'both triangles are wound like the quad and their signed areas add up to the quad\'s. Searched: from_grid / from_polygon_grid / '
             'Face3D.mesh_grid (star, comb '
             'and holed shapes in rational planes, cell sizes 1/40..2x the extent, offsets, flip, centroids on/off) - congruent cells '
             'of the exactly computed adjusted size, corners inside the source shape (exact rational containment), reported areas / '
             'centroids / normals equal recomputed ones, normal direction; random removal patterns and triangulation keep per-face '
             'data aligned; OBJ round trips exact and ASCII STL round trips to 1e-6 for triangle, quad and mixed meshes. remove_faces_only (generated) is proved to keep exactly the flagged faces in order with the vertices untouched, and Plane.move to keep the plane coordinates of the grid valid.',
        note='Partial: inside filtering and file I/O are validated, not proved; removal is proved for a hand model; mesh colours are not exercised (ladybug.color '
             'is absent here). Trusted: Coq kernel, py2coq, harness oracles.',
        technique=T_Q),
    'C09': dict(
        text='Partial. Proved: for the generated Plane.xy_to_xyz / xyz_to_xy (translated from the source on every run) and every '
             'orthonormal frame, result vertices built from 2D coordinates lie in the operand plane, map back to the same 2D '
             'coordinates, and signed areas / orientation in the plane equal those of the 2D loops - a coplanar operation is its 2D '
             'operation and keeps the operand normal; for the cell-set specification (CellSpec.v) the laws the property states: '
             'pairwise disjoint pieces whose union is the face total its area, difference = A - intersection, union + intersection = '
             'sum, a coplanar split re-assembles both operands; for the loop classification of _from_bool_poly (hand model LoopGroup.v, run '
             'against it on nested loop families): for every laminar family sorted outermost-first the faces are exactly the loops of even '
             'nesting depth and the holes of a face exactly the loops whose innermost enclosing loop is its outer loop. Searched against that specification (exactly, by unit-cell sets, in '
             'random rational planes): coplanar_union / intersection / difference / split / union_all on lattice shapes with '
             'rectangular holes (random, nested, edge-sharing, corner-touching, equal, crossing, rectangle at a reflex corner, '
             'island in a hole, operand over a hole) incl. face.area of every result face, holes inside their boundary, normals and '
             'planes; split_with_line / lines / polyline along lattice lines (interior, through vertices, along edges, through holes '
             'and gaps) must return exactly the components cut by the line(s); split_through_holes by exact areas and membership; '
             'general-position star polygons by exact membership and area identities.',
        note='Partial: sweep, loop classification, graph splitter and hole merger are validated, not proved. Known findings: '
             'split_with_polyline with a polyline vertex on a hole vertex; the triangle-regrouping fallback of split_through_holes. '
             'Trusted: Coq kernel, py2coq, CellSpec.v as the specification, harness.',
        technique=T_Q),
    'C19': dict(
        text='Partial. Proved in exact arithmetic: (1) offset vertex kernel (hand model SubOffset.v, run corner by corner against '
             'Polygon2D.offset on corners with rational unit directions and rational half angles, convex and reflex): the moved vertex '
             'is at signed distance exactly d from both adjacent edge lines, inner side for d > 0 - and the same for the GENERATED '
             'Polygon2D.offset (translated from the source): it moves vertex i of a counter-clockwise loop by normalize(rotate(v1,-a)) * d/sin a, '
             'which is at distance d from both edges under pointwise hypotheses on cos / sin / sqrt at the half angle; (2) perimeter quads (model run '
             'against perimeter_core_by_offset): quads plus inner loop tile the outer loop, signed areas add up for every pair of '
             'n-gons; (3) scaling about a centre (generated Polygon2D.scale): image stays in every half-plane containing centre and '
             'point, area = ratio x original when k*k == ratio, per-piece scaling totals k*k x total; (4) sub-rectangle layout (model '
             'with Python round-half-even, run against Face3D.sub_rects_from_rect_ratio): in every branch areas total ratio x parent, '
             'the array lies inside the parent, columns / rows do not overlap (ratio <= 0.95); the generated sub_rects_from_rect_ratio is run '
             'against the same model inside Coq; (5) the layout of sub_rects_from_rect_dimensions (hand model SubDims.v, run against the '
             'implementation) lies inside the parent and does not overlap for every parameter value. Searched: Polygon2D.offset (convex, d '
             'up to 0.4 A/P; concave up to 0.2 x feature size; both windings): vertex count, orientation, parallel edges at distance '
             '|d| on the stated side; LineSegment2D / Polyline2D offsets; perimeter_core_by_offset with cw / ccw holes (area '
             'partition, quad shape, inside); sub_faces_by_ratio(_rectangle) on rect / L / gable / trapezoid / convex / holed walls in '
             'vertical, tilted, horizontal rational planes: total area = ratio x parent, plane, normal, inside boundary, outside '
             'holes, pairwise non-overlap (exact); sub_rects_from_rect_ratio / _dimensions incl. parameters at the edges of their ranges.',
        note='Partial: global non-self-intersection of offsets and rectangle extraction are validated, '
             'not proved; trigonometric oracles are outside the offset kernel theorem (it takes cos/sin of the half angle as data). '
             'Trusted: Coq kernel, hand models + correspondence, py2coq (Polygon2D.scale), harness.',
        technique='machine-checked Coq proofs about hand-written executable models (vm_compute correspondence) and generated definitions; exact search'),
    'C16': dict(
        text='Proved for every orthonormal plane frame: the generated plane embedding is an isometry and preserves dot products; the '
             '3D closest-point-on-segment routine applied to embedded data returns the embedded result of the 2D routine (same '
             'parameter, same clamp branch); point_at agrees; both siblings\' subdivide_evenly return n+1 points for all n in 1..500 '
             '(bit-exact PrimFloat model); the generated Mesh3D._quad_centroid of a plane-embedded convex quad is proved to be the embedding of '
             'the 2D area centroid for every orthonormal frame (and run against the implementation); Polyline3D.remove_colinear_vertices '
             '(generated, after the repair that made it judge each vertex against the last KEPT one) is proved to be the same keep-if-corner scan '
             'as the 2D routine with the test |(a - v) x (n - v)| >= tolerance, the two tests are proved equal on plane-embedded points (sqrt '
             'exact on squares), and therefore the siblings are proved to keep the same vertices of every embedded polyline. Every other shared zero-argument member of the six sibling pairs and the shared '
             'parametrised methods (closest point, distance, subdivision, intersection, clean-up, containment, join_segments) are '
             'compared by introspection in the XY plane and in random rational planes. join_meshes (generated, any number of meshes) is proved to give the shifted concatenation with every index pointing at its own vertex and equal face lists for the 2D and 3D siblings.',
        note='Trusted: Coq kernel (+ primitive floats), py2coq, FloatLoops.v correspondence, harness. Members beyond the proved ones '
             'are validated.',
        technique=T_Q),
}
