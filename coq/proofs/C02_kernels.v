(* C02: the point/vector kernels of pointvector.py are the stated maps.
   All statements are about the GENERATED definitions in gen/G0_vec.v. *)
From LBG Require Import Base QGeom G0_vec.
Open Scope Q_scope.

Ltac vu := unfold Point2D_rotate, Point2D_reflect, Point2D_move,
  Point2D_scale, Point2D_scale_world, Vector2D_op_add, Point2D_op_sub, Vector2D_op_mul,
  Vector2D__rotate, Vector2D__reflect in *; unfold sqd2, sqd3 in *;
  unfold dot2, det2, dot3, add2, sub2, smul2, add3, sub3, smul3, cross3 in *; cbv beta in *; vred.

(* ------------------------------------------------------------- 2D rotation *)
Section Rot2.
Variables qcos qsin : Q -> Q.
Variable a : Q.
Hypothesis unit : qcos a * qcos a + qsin a * qsin a == 1.
Notation R := (fun v => Vector2D__rotate qcos qsin v a) (only parsing).

Lemma rot2_is_matrix v :
  R v =2= mkV2 (qcos a * v2x v - qsin a * v2y v) (qsin a * v2x v + qcos a * v2y v).
Proof. split; vu; ring. Qed.

Lemma rot2_dot u v : dot2 (R u) (R v) == dot2 u v.
Proof.
  unfold Vector2D__rotate, dot2; vred.
  set (c := qcos a) in *; set (s := qsin a) in *.
  transitivity ((c*c + s*s) * (v2x u * v2x v + v2y u * v2y v)); [ring|].
  rewrite unit; ring.
Qed.

Lemma rot2_det u v : det2 (R u) (R v) == det2 u v.
Proof.
  unfold Vector2D__rotate, det2; vred.
  set (c := qcos a) in *; set (s := qsin a) in *.
  transitivity ((c*c + s*s) * (v2x u * v2y v - v2y u * v2x v)); [ring|].
  rewrite unit; ring.
Qed.

Lemma rot2_linear k u v : R (add2 (smul2 k u) v) =2= add2 (smul2 k (R u)) (R v).
Proof. split; vu; ring. Qed.

(* Point2D.rotate = translate to origin, rotate, translate back; distances kept *)
Lemma point2_rotate_spec p o :
  Point2D_rotate qcos qsin p a o =2= add2 (R (sub2 p o)) o.
Proof. split; vu; ring. Qed.

Lemma point2_rotate_fixes_origin o : Point2D_rotate qcos qsin o a o =2= o.
Proof. split; vu; ring. Qed.

Lemma point2_rotate_sqd p q o :
  sqd2 (Point2D_rotate qcos qsin p a o) (Point2D_rotate qcos qsin q a o) == sqd2 p q.
Proof.
  unfold sqd2, dot2; vu.
  set (c := qcos a) in *; set (s := qsin a) in *.
  transitivity ((c*c + s*s) * ((v2x p - v2x q)*(v2x p - v2x q) + (v2y p - v2y q)*(v2y p - v2y q))); [ring|].
  rewrite unit; ring.
Qed.

(* inverse: rotating back by an angle whose cos/sin are (c, -s) *)
Variable b : Q.
Hypothesis inv_c : qcos b == qcos a.
Hypothesis inv_s : qsin b == - qsin a.
Lemma rot2_inverse v : Vector2D__rotate qcos qsin (R v) b =2= v.
Proof.
  split; vu; rewrite inv_c, inv_s;
  set (c := qcos a) in *; set (s := qsin a) in *.
  - transitivity ((c*c + s*s) * v2x v); [ring| rewrite unit; ring].
  - transitivity ((c*c + s*s) * v2y v); [ring| rewrite unit; ring].
Qed.
Lemma point2_rotate_inverse p o :
  Point2D_rotate qcos qsin (Point2D_rotate qcos qsin p a o) b o =2= p.
Proof.
  split; vu; rewrite inv_c, inv_s;
  set (c := qcos a) in *; set (s := qsin a) in *.
  - transitivity ((c*c + s*s) * (v2x p - v2x o) + v2x o); [ring| rewrite unit; ring].
  - transitivity ((c*c + s*s) * (v2y p - v2y o) + v2y o); [ring| rewrite unit; ring].
Qed.
End Rot2.

(* composition = angle addition, hence any wrapped / negative angle *)
Lemma rot2_compose qcos qsin a b ab v :
  qcos ab == qcos a * qcos b - qsin a * qsin b ->
  qsin ab == qsin a * qcos b + qcos a * qsin b ->
  Vector2D__rotate qcos qsin (Vector2D__rotate qcos qsin v a) b =2= Vector2D__rotate qcos qsin v ab.
Proof. intros Hc Hs; split; vu; rewrite Hc, Hs; ring. Qed.

(* ----------------------------------------------------------- 2D reflection *)
Section Refl2.
Variable n : V2.
Hypothesis unit : dot2 n n == 1.

Lemma refl2_is_householder v :
  Vector2D__reflect v n =2= sub2 v (smul2 (2 * dot2 v n) n).
Proof. split; vu; ring. Qed.

Lemma refl2_dot u v : dot2 (Vector2D__reflect u n) (Vector2D__reflect v n) == dot2 u v.
Proof.
  unfold dot2 in *; vu.
  set (nx := v2x n) in *; set (ny := v2y n) in *.
  transitivity (v2x u * v2x v + v2y u * v2y v
     + 4 * (v2x u * nx + v2y u * ny) * (v2x v * nx + v2y v * ny) * ((nx*nx + ny*ny) - 1)); [ring|].
  rewrite unit; ring.
Qed.

Lemma refl2_det u v : det2 (Vector2D__reflect u n) (Vector2D__reflect v n) == - det2 u v.
Proof.
  unfold det2, dot2 in *; vu.
  set (nx := v2x n) in *; set (ny := v2y n) in *.
  transitivity (- (v2x u * v2y v - v2y u * v2x v)
     + 2 * (v2x u * v2y v - v2y u * v2x v) * (1 - (nx*nx + ny*ny))); [ring|].
  rewrite unit; ring.
Qed.

Lemma refl2_involutive v : Vector2D__reflect (Vector2D__reflect v n) n =2= v.
Proof.
  unfold dot2 in *; split; vu;
  set (nx := v2x n) in *; set (ny := v2y n) in *.
  - transitivity (v2x v + 4 * (v2x v * nx + v2y v * ny) * nx * ((nx*nx + ny*ny) - 1)); [ring| rewrite unit; ring].
  - transitivity (v2y v + 4 * (v2x v * nx + v2y v * ny) * ny * ((nx*nx + ny*ny) - 1)); [ring| rewrite unit; ring].
Qed.

Lemma refl2_fixes_mirror_line v : dot2 v n == 0 -> Vector2D__reflect v n =2= v.
Proof.
  unfold dot2; intros H; split; vu.
  - transitivity (v2x v - 2 * (v2x v * v2x n + v2y v * v2y n) * v2x n); [ring| rewrite H; ring].
  - transitivity (v2y v - 2 * (v2x v * v2x n + v2y v * v2y n) * v2y n); [ring| rewrite H; ring].
Qed.

Lemma point2_reflect_spec p o :
  Point2D_reflect p n o =2= add2 (Vector2D__reflect (sub2 p o) n) o.
Proof. split; vu; ring. Qed.

Lemma point2_reflect_involutive p o : Point2D_reflect (Point2D_reflect p n o) n o =2= p.
Proof.
  unfold dot2 in *; split; vu;
  set (nx := v2x n) in *; set (ny := v2y n) in *.
  - transitivity (v2x p + 4 * ((v2x p - v2x o) * nx + (v2y p - v2y o) * ny) * nx * ((nx*nx + ny*ny) - 1)); [ring| rewrite unit; ring].
  - transitivity (v2y p + 4 * ((v2x p - v2x o) * nx + (v2y p - v2y o) * ny) * ny * ((nx*nx + ny*ny) - 1)); [ring| rewrite unit; ring].
Qed.

Lemma point2_reflect_sqd p q o :
  sqd2 (Point2D_reflect p n o) (Point2D_reflect q n o) == sqd2 p q.
Proof.
  unfold sqd2, dot2, sub2 in *; vu.
  set (nx := v2x n) in *; set (ny := v2y n) in *.
  set (dx := v2x p - v2x q); set (dy := v2y p - v2y q).
  transitivity (dx*dx + dy*dy + 4 * (dx * nx + dy * ny) * (dx * nx + dy * ny) * ((nx*nx + ny*ny) - 1));
    [unfold dx, dy; ring| rewrite unit; ring].
Qed.
End Refl2.

(* ------------------------------------------------------- 2D move and scale *)
Lemma point2_move_spec p m : Point2D_move p m =2= add2 p m.
Proof. split; vu; ring. Qed.
Lemma point2_move_inverse p m : Point2D_move (Point2D_move p m) (smul2 (-1) m) =2= p.
Proof. split; vu; ring. Qed.
Lemma point2_move_sqd p q m : sqd2 (Point2D_move p m) (Point2D_move q m) == sqd2 p q.
Proof. unfold sqd2, dot2, sub2; vu; ring. Qed.

Lemma point2_scale_spec p k o : Point2D_scale p k o =2= add2 (smul2 k (sub2 p o)) o.
Proof. split; vu; ring. Qed.
Lemma point2_scale_world_spec p k : Point2D_scale_world p k =2= smul2 k p.
Proof. split; vu; ring. Qed.
Lemma point2_scale_sqd p q k o :
  sqd2 (Point2D_scale p k o) (Point2D_scale q k o) == k * k * sqd2 p q.
Proof. unfold sqd2, dot2, sub2; vu; ring. Qed.
Lemma point2_scale_det p q r k o :
  det2 (sub2 (Point2D_scale q k o) (Point2D_scale p k o)) (sub2 (Point2D_scale r k o) (Point2D_scale p k o))
  == k * k * det2 (sub2 q p) (sub2 r p).
Proof. unfold det2, sub2; vu; ring. Qed.
Lemma point2_scale_inverse p k o : ~ k == 0 -> Point2D_scale (Point2D_scale p k o) (/ k) o =2= p.
Proof. intros Hk; split; vu; field; assumption. Qed.

(* ------------------------------------------------------------- 3D rotation *)
Section Rot3.
Variables qsqrt qcos qsin : Q -> Q.
Variable axis : V3.
Variable a : Q.
Notation N := (v3x axis * v3x axis + v3y axis * v3y axis + v3z axis * v3z axis).
Hypothesis unit : qcos a * qcos a + qsin a * qsin a == 1.
Hypothesis root : qsqrt N * qsqrt N == N.
Hypothesis axis_nz : ~ N == 0.
Notation R := (fun v => Vector3D__rotate qsqrt qcos qsin v axis a) (only parsing).

Lemma rot3_r_nz : ~ qsqrt N == 0.
Proof. intro H. apply axis_nz. rewrite <- root. rewrite H. ring. Qed.

Lemma rot3_KK : / qsqrt N * / qsqrt N == / N.
Proof. pose proof rot3_r_nz. rewrite <- root at 3. field. assumption. Qed.

Lemma rot3_iN : / N * N == 1.
Proof. field. exact axis_nz. Qed.

Ltac r3u := unfold Vector3D__rotate, dot3, cross3, add3, smul3, Qdiv in *; cbv beta in *; vred.

(* Rodrigues form: R v = v cos + (n x v) sin/r + n (n.v)(1-cos)/r^2 *)
Lemma rot3_is_rodrigues v :
  R v =3= add3 (add3 (smul3 (qcos a) v) (smul3 (qsin a / qsqrt N) (cross3 axis v)))
               (smul3 (dot3 axis v * (1 - qcos a) / N) axis).
Proof. repeat split; r3u; ring. Qed.

Lemma rot3_fixes_axis : R axis =3= axis.
Proof.
  pose proof rot3_iN as HN.
  repeat split; r3u; set (iN := / N) in *; set (K := / qsqrt N).
  - transitivity (v3x axis * qcos a + v3x axis * (1 - qcos a) * (iN * N)); [ring| rewrite HN; ring].
  - transitivity (v3y axis * qcos a + v3y axis * (1 - qcos a) * (iN * N)); [ring| rewrite HN; ring].
  - transitivity (v3z axis * qcos a + v3z axis * (1 - qcos a) * (iN * N)); [ring| rewrite HN; ring].
Qed.

Lemma rot3_dot u v : dot3 (R u) (R v) == dot3 u v.
Proof.
  pose proof rot3_iN as HN. pose proof rot3_KK as HK.
  r3u. set (iN := / N) in *. set (K := / qsqrt N) in *.
  set (c := qcos a) in *; set (s := qsin a) in *.
  set (nx := v3x axis) in *; set (ny := v3y axis) in *; set (nz := v3z axis) in *.
  set (uv := v3x u * v3x v + v3y u * v3y v + v3z u * v3z v).
  set (nu := nx * v3x u + ny * v3y u + nz * v3z u).
  set (nv := nx * v3x v + ny * v3y v + nz * v3z v).
  transitivity (c * c * uv + s * s * ((K * K) * (nx*nx + ny*ny + nz*nz)) * uv - s * s * (K * K) * nu * nv
                + (1 - c) * (1 - c) * iN * (iN * (nx*nx + ny*ny + nz*nz)) * nu * nv + 2 * c * (1 - c) * iN * nu * nv);
    [unfold uv, nu, nv; ring|].
  rewrite HK, HN.
  transitivity (uv + ((c * c + s * s) - 1) * (uv - iN * nu * nv)); [ring| rewrite unit; ring].
Qed.

(* rotation preserves orientation: R u x R v = R (u x v) *)
Lemma rot3_cross u v : cross3 (R u) (R v) =3= R (cross3 u v).
Proof.
  pose proof rot3_iN as HN. pose proof rot3_KK as HK.
  r3u. set (iN := / N) in *. set (K := / qsqrt N) in *.
  set (c := qcos a) in *; set (s := qsin a) in *.
  set (nx := v3x axis) in *; set (ny := v3y axis) in *; set (nz := v3z axis) in *.
  set (ux := v3x u); set (uy := v3y u); set (uz := v3z u).
  set (vx := v3x v); set (vy := v3y v); set (vz := v3z v).
  pose (wx := uy * vz - uz * vy). pose (wy := uz * vx - ux * vz). pose (wz := ux * vy - uy * vx).
  pose (nw := nx * wx + ny * wy + nz * wz).
  pose (mx := ny * wz - nz * wy). pose (my := nz * wx - nx * wz). pose (mz := nx * wy - ny * wx).
  pose (NN := nx*nx + ny*ny + nz*nz).
  repeat split; vred.
  - transitivity (c*c*wx + c*(s*K)*mx + c*(1-c)*(iN*NN)*wx - c*(1-c)*iN*nx*nw + s*s*(K*K)*nx*nw + s*K*(1-c)*(iN*NN)*mx);
      [unfold nw, mx, my, mz, NN; unfold wx, wy, wz; ring|].
    unfold NN; rewrite HK, HN.
    transitivity (c*wx + s*K*mx + (1-c)*iN*nw*nx + ((c*c+s*s) - 1)*iN*nx*nw);
      [ring | rewrite unit; unfold nw, mx, my, mz; unfold wx, wy, wz; ring].
  - transitivity (c*c*wy + c*(s*K)*my + c*(1-c)*(iN*NN)*wy - c*(1-c)*iN*ny*nw + s*s*(K*K)*ny*nw + s*K*(1-c)*(iN*NN)*my);
      [unfold nw, mx, my, mz, NN; unfold wx, wy, wz; ring|].
    unfold NN; rewrite HK, HN.
    transitivity (c*wy + s*K*my + (1-c)*iN*nw*ny + ((c*c+s*s) - 1)*iN*ny*nw);
      [ring | rewrite unit; unfold nw, mx, my, mz; unfold wx, wy, wz; ring].
  - transitivity (c*c*wz + c*(s*K)*mz + c*(1-c)*(iN*NN)*wz - c*(1-c)*iN*nz*nw + s*s*(K*K)*nz*nw + s*K*(1-c)*(iN*NN)*mz);
      [unfold nw, mx, my, mz, NN; unfold wx, wy, wz; ring|].
    unfold NN; rewrite HK, HN.
    transitivity (c*wz + s*K*mz + (1-c)*iN*nw*nz + ((c*c+s*s) - 1)*iN*nz*nw);
      [ring | rewrite unit; unfold nw, mx, my, mz; unfold wx, wy, wz; ring].
Qed.

Lemma rot3_linear k u v : R (add3 (smul3 k u) v) =3= add3 (smul3 k (R u)) (R v).
Proof. repeat split; r3u; ring. Qed.

(* Point3D.rotate: about origin o; distances between images are kept *)
Lemma point3_rotate_spec p o :
  Point3D_rotate qsqrt qcos qsin p axis a o =3= add3 (R (sub3 p o)) o.
Proof. unfold Point3D_rotate, Vector3D_op_add, Vector3D_op_sub, sub3, add3; repeat split; vred; reflexivity. Qed.

Lemma point3_rotate_sqd p q o :
  sqd3 (Point3D_rotate qsqrt qcos qsin p axis a o) (Point3D_rotate qsqrt qcos qsin q axis a o) == sqd3 p q.
Proof.
  unfold sqd3.
  assert (E : sub3 (Point3D_rotate qsqrt qcos qsin p axis a o) (Point3D_rotate qsqrt qcos qsin q axis a o)
              =3= R (sub3 p q)).
  { unfold Point3D_rotate, Vector3D_op_add, Vector3D_op_sub; repeat split; r3u; unfold sub3; vred; ring. }
  destruct E as (E1 & E2 & E3). unfold dot3 at 1. rewrite E1, E2, E3.
  apply rot3_dot.
Qed.
End Rot3.

(* rotate_xy = rotation about the Z axis through origin *)
Lemma rot3_xy_is_z qsqrt qcos qsin v a :
  qsqrt (0 * 0 + 0 * 0 + 1 * 1) == 1 ->
  Vector3D_rotate_xy qcos qsin v a =3= Vector3D__rotate qsqrt qcos qsin v (mkV3 0 0 1) a.
Proof.
  intros H1. unfold Vector3D_rotate_xy, Vector2D__rotate_2, Vector3D__rotate; repeat split; vred;
  rewrite H1; field.
Qed.

(* ----------------------------------------------------------- 3D reflection *)
Section Refl3.
Variable n : V3.
Hypothesis unit : dot3 n n == 1.
Ltac f3u := unfold Point3D_reflect, Vector3D_op_add, Vector3D_op_sub, Vector3D__reflect in *;
  unfold sqd3 in *; unfold dot3, cross3, add3, sub3, smul3 in *; vred.

Lemma refl3_is_householder v : Vector3D__reflect v n =3= sub3 v (smul3 (2 * dot3 v n) n).
Proof. repeat split; f3u; ring. Qed.

Lemma refl3_dot u v : dot3 (Vector3D__reflect u n) (Vector3D__reflect v n) == dot3 u v.
Proof.
  f3u. set (nx := v3x n) in *; set (ny := v3y n) in *; set (nz := v3z n) in *.
  set (un := v3x u * nx + v3y u * ny + v3z u * nz). set (vn := v3x v * nx + v3y v * ny + v3z v * nz).
  transitivity (v3x u * v3x v + v3y u * v3y v + v3z u * v3z v + 4 * un * vn * ((nx*nx + ny*ny + nz*nz) - 1));
    [unfold un, vn; ring| rewrite unit; ring].
Qed.

Lemma refl3_involutive v : Vector3D__reflect (Vector3D__reflect v n) n =3= v.
Proof.
  repeat split; f3u; set (nx := v3x n) in *; set (ny := v3y n) in *; set (nz := v3z n) in *;
  set (vn := v3x v * nx + v3y v * ny + v3z v * nz).
  - transitivity (v3x v + 4 * vn * nx * ((nx*nx + ny*ny + nz*nz) - 1)); [unfold vn; ring| rewrite unit; ring].
  - transitivity (v3y v + 4 * vn * ny * ((nx*nx + ny*ny + nz*nz) - 1)); [unfold vn; ring| rewrite unit; ring].
  - transitivity (v3z v + 4 * vn * nz * ((nx*nx + ny*ny + nz*nz) - 1)); [unfold vn; ring| rewrite unit; ring].
Qed.

(* a mirror reverses orientation: (M u) x (M v) = - M (u x v) *)
Lemma refl3_cross u v :
  cross3 (Vector3D__reflect u n) (Vector3D__reflect v n) =3= smul3 (-1) (Vector3D__reflect (cross3 u v) n).
Proof.
  repeat split; f3u; set (nx := v3x n) in *; set (ny := v3y n) in *; set (nz := v3z n) in *;
  set (ux := v3x u); set (uy := v3y u); set (uz := v3z u);
  set (vx := v3x v); set (vy := v3y v); set (vz := v3z v).
  - transitivity (-1 * ((uy*vz - uz*vy) - 2 * ((uy*vz - uz*vy)*nx + (uz*vx - ux*vz)*ny + (ux*vy - uy*vx)*nz) * nx)
       + 2 * (uy*vz - uz*vy) * (1 - (nx*nx + ny*ny + nz*nz))); [ring| rewrite unit; ring].
  - transitivity (-1 * ((uz*vx - ux*vz) - 2 * ((uy*vz - uz*vy)*nx + (uz*vx - ux*vz)*ny + (ux*vy - uy*vx)*nz) * ny)
       + 2 * (uz*vx - ux*vz) * (1 - (nx*nx + ny*ny + nz*nz))); [ring| rewrite unit; ring].
  - transitivity (-1 * ((ux*vy - uy*vx) - 2 * ((uy*vz - uz*vy)*nx + (uz*vx - ux*vz)*ny + (ux*vy - uy*vx)*nz) * nz)
       + 2 * (ux*vy - uy*vx) * (1 - (nx*nx + ny*ny + nz*nz))); [ring| rewrite unit; ring].
Qed.

Lemma point3_reflect_spec p o : Point3D_reflect p n o =3= add3 (Vector3D__reflect (sub3 p o) n) o.
Proof. repeat split; f3u; ring. Qed.

Lemma point3_reflect_sqd p q o : sqd3 (Point3D_reflect p n o) (Point3D_reflect q n o) == sqd3 p q.
Proof.
  f3u. set (nx := v3x n) in *; set (ny := v3y n) in *; set (nz := v3z n) in *.
  set (dx := v3x p - v3x q); set (dy := v3y p - v3y q); set (dz := v3z p - v3z q).
  transitivity (dx*dx + dy*dy + dz*dz + 4 * (dx*nx + dy*ny + dz*nz) * (dx*nx + dy*ny + dz*nz) * ((nx*nx + ny*ny + nz*nz) - 1));
    [unfold dx, dy, dz; ring| rewrite unit; ring].
Qed.

Lemma point3_reflect_involutive p o : Point3D_reflect (Point3D_reflect p n o) n o =3= p.
Proof.
  repeat split; f3u; set (nx := v3x n) in *; set (ny := v3y n) in *; set (nz := v3z n) in *;
  set (pn := (v3x p - v3x o) * nx + (v3y p - v3y o) * ny + (v3z p - v3z o) * nz).
  - transitivity (v3x p + 4 * pn * nx * ((nx*nx + ny*ny + nz*nz) - 1)); [unfold pn; ring| rewrite unit; ring].
  - transitivity (v3y p + 4 * pn * ny * ((nx*nx + ny*ny + nz*nz) - 1)); [unfold pn; ring| rewrite unit; ring].
  - transitivity (v3z p + 4 * pn * nz * ((nx*nx + ny*ny + nz*nz) - 1)); [unfold pn; ring| rewrite unit; ring].
Qed.
End Refl3.

(* ------------------------------------------------------- 3D move and scale *)
Ltac m3u := unfold Point3D_move, Point3D_scale, Point3D_scale_world, Vector3D_op_add, Vector3D_op_sub, Vector3D_op_mul in *;
  unfold sqd3 in *; unfold dot3, cross3, add3, sub3, smul3 in *; vred.
Lemma point3_move_spec p m : Point3D_move p m =3= add3 p m.
Proof. repeat split; m3u; ring. Qed.
Lemma point3_move_inverse p m : Point3D_move (Point3D_move p m) (smul3 (-1) m) =3= p.
Proof. repeat split; m3u; ring. Qed.
Lemma point3_move_sqd p q m : sqd3 (Point3D_move p m) (Point3D_move q m) == sqd3 p q.
Proof. m3u; ring. Qed.
Lemma point3_scale_spec p k o : Point3D_scale p k o =3= add3 (smul3 k (sub3 p o)) o.
Proof. repeat split; m3u; ring. Qed.
Lemma point3_scale_world_spec p k : Point3D_scale_world p k =3= smul3 k p.
Proof. repeat split; m3u; ring. Qed.
Lemma point3_scale_sqd p q k o : sqd3 (Point3D_scale p k o) (Point3D_scale q k o) == k * k * sqd3 p q.
Proof. m3u; ring. Qed.
Lemma point3_scale_inverse p k o : ~ k == 0 -> Point3D_scale (Point3D_scale p k o) (/ k) o =3= p.
Proof. intros Hk; repeat split; m3u; field; assumption. Qed.
(* volumes scale by k^3: triple product of scaled edge vectors *)
Lemma point3_scale_triple p q r t k o :
  dot3 (sub3 (Point3D_scale q k o) (Point3D_scale p k o))
       (cross3 (sub3 (Point3D_scale r k o) (Point3D_scale p k o)) (sub3 (Point3D_scale t k o) (Point3D_scale p k o)))
  == k * k * k * dot3 (sub3 q p) (cross3 (sub3 r p) (sub3 t p)).
Proof. m3u; ring. Qed.
