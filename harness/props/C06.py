"""C06  Face3D plane, normal and right-hand-rule contract."""
import math
from fractions import Fraction
from .. import core, gens as G, exact as X, build as Bd
from ..core import q, v2, v3, F
from ..build import P2, V2, P3, V3
from ladybug_geometry.geometry2d import Polygon2D
from ladybug_geometry.geometry3d import Face3D, Plane, LineSegment3D

RULE = ('planar loops in random rational planes (incl. axis-aligned and near +-Z), both orders, all cyclic starts, concave / '
        'collinear leading corners, 0..3 holes of either orientation, with/without a user plane (possibly opposing); all '
        'constructors; distinct by (constructor, vertex count, holes, order, start, user-plane mode)')
ASSUMPTIONS = ['the Face3D Coq model covers faces without holes; faces with holes are validated here']
TRUSTED = ['qsqrt assumed exact (pointwise) on the radicands of normalisation; Proper (Qeq ==> Qeq) qsqrt']


def check_face(ctx, face, kind, desc, expect_normal=None):
    """the contract every Face3D must satisfy; expect_normal: exact direction the normal must have (or None)"""
    n = X.fpt(face.normal)
    pl = face.plane
    if not X.close(X.norm2(n), 1, 1e-9):
        ctx.violation(kind + ':normal_not_unit', '|n|^2 = %r' % float(X.norm2(n)), desc)
        return
    b = [X.fpt(p) for p in face.boundary]
    nw = X.newell(b)
    nl = math.sqrt(float(X.norm2(nw)))
    if nl == 0:
        return
    # right-hand rule: the stored normal is the normalised area vector of the stored boundary
    cosang = float(X.dot(nw, n)) / nl
    if cosang < 1 - 1e-9:
        ctx.violation(kind + ':normal_not_right_hand', 'normal %r vs area vector of the stored boundary: cos = %r' % (face.normal, cosang), desc)
        return
    if expect_normal is not None:
        en = math.sqrt(float(X.norm2(expect_normal)))
        c2 = float(X.dot(expect_normal, n)) / en
        if abs(abs(c2) - 1) > 1e-9:
            ctx.violation(kind + ':normal_off_plane', 'normal %r not along the construction plane normal' % (face.normal,), desc)
            return
    if face.is_clockwise or face.boundary_polygon2d.is_clockwise:
        ctx.violation(kind + ':clockwise', 'face reports clockwise vertices', desc)
        return
    x, y = X.fpt(pl.x), X.fpt(pl.y)
    for nm, val, exp in (('x.x', X.dot(x, x), 1), ('y.y', X.dot(y, y), 1), ('x.n', X.dot(x, n), 0), ('y.n', X.dot(y, n), 0), ('x.y', X.dot(x, y), 0)):
        if abs(float(val) - exp) > 1e-9:
            ctx.violation(kind + ':frame', 'plane axes not orthonormal: %s = %r' % (nm, float(val)), desc)
            return
    if not X.pclose(X.cross(x, y), n, 1e-9, 1.0):
        ctx.violation(kind + ':frame_handedness', 'x cross y != n', desc)
        return
    if face.has_holes:
        # the single loop `vertices` (boundary with the holes cut in) winds like the boundary: its area vector is (A_boundary - A_holes) n
        nv = X.newell([X.fpt(p) for p in face.vertices])
        if X.dot(nv, n) <= 0:
            ctx.violation(kind + ':vertices_loop_clockwise', 'the merged vertices loop winds clockwise about the normal (%d vertices)' % len(face.vertices), desc)
            return
        pv = face.polygon2d.vertices
        if sum(pv[i - 1].x * pv[i].y - pv[i].x * pv[i - 1].y for i in range(len(pv))) <= 0:
            ctx.violation(kind + ':polygon2d_clockwise', 'polygon2d of a face that reports counter-clockwise has negative signed area', desc)
            return
    sc = max(1.0, max(abs(float(c)) for p in b for c in p))
    for p in list(face.vertices):
        back = pl.xy_to_xyz(pl.xyz_to_xy(p))
        if not X.pclose(X.fpt(back), X.fpt(p), 1e-9, sc):
            ctx.violation(kind + ':roundtrip', 'vertex %r maps to 2D and back to %r' % (p, back), desc)
            return
    # flip
    fl = face.flip()
    if not X.pclose(X.fpt(fl.normal), X.smul(-1, n), 1e-9, 1.0):
        ctx.violation(kind + ':flip_normal', 'flip normal %r' % (fl.normal,), desc)
    elif [tuple(p) for p in fl.boundary] != [tuple(p) for p in reversed(face.boundary)]:
        ctx.violation(kind + ':flip_boundary', 'flip does not reverse the boundary', desc)
    elif not X.close(fl.area, face.area, 1e-9) or len(fl.holes or ()) != len(face.holes or ()):
        ctx.violation(kind + ':flip_measure', 'flip area %r vs %r, holes %r vs %r' % (fl.area, face.area, len(fl.holes or ()), len(face.holes or ())), desc)
    elif fl.is_clockwise:
        ctx.violation(kind + ':flip_clockwise', 'flipped face is clockwise', desc)


def shape(rng, mode):
    if mode == 'concave_first':
        # a concave corner at vertex 1 (first three vertices turn the "wrong" way)
        pts = [(0.0, 0.0), (2.0, 1.0), (4.0, 0.0), (4.0, 4.0), (0.0, 4.0)]
        s = G.dy(rng.uniform(0.5, 20))
        return [(p[0] * s, p[1] * s) for p in pts]
    if mode == 'collinear_first':
        s = G.dy(rng.uniform(0.5, 20))
        return [(0.0, 0.0), (1.0 * s, 0.0), (2.0 * s, 0.0), (2.0 * s, 2.0 * s), (0.0, 2.0 * s)]
    if mode == 'collinear_quad':
        # a triangle with an extra vertex in the middle of one side: a 4-vertex loop whose first three vertices may be collinear
        s = G.dy(rng.uniform(0.5, 20)); t = G.dy(rng.uniform(-1.0, 3.0))
        return [(0.0, 0.0), (1.0 * s, 0.0), (2.0 * s, 0.0), (t * s, 2.0 * s)]
    return G.star_polygon(rng, n=rng.choice([3, 4, 5, 6, 9, 15]), R=rng.choice([2.0, 20.0, 200.0]), center=(0.0, 0.0))


def near_z_frame(rng):
    """frame whose normal is within ~1e-3..1e-7 of +-Z (rational rotation by a tiny Pythagorean angle)"""
    m = rng.choice([100, 1000, 100000])
    c, s = Fraction(m * m - 1, m * m + 1), Fraction(2 * m, m * m + 1)
    sg = rng.choice([1, -1])
    x = (float(c), 0.0, float(-s))
    y = (0.0, float(sg), 0.0)
    n = (float(s) * sg, 0.0, float(c) * sg)
    return x, y, n


def fam_ctor(ctx, rng):
    mode = rng.choice(['star', 'star', 'star', 'concave_first', 'collinear_first', 'collinear_quad', 'collinear_quad', 'large'])
    if mode == 'large':
        # the upper end of the quantifier: a 40..60-vertex outline with 1..3 many-vertex holes of either orientation
        nb = rng.choice([40, 50, 60])
        b = [(G.dy((50 + rng.uniform(-2, 2)) * math.cos(2 * math.pi * i / nb)), G.dy((50 + rng.uniform(-2, 2)) * math.sin(2 * math.pi * i / nb))) for i in range(nb)]
        hs = []
        for cx_, cy_ in [(-25.0, 0.0), (25.0, 0.0), (0.0, 25.0)][:rng.randint(1, 3)]:
            m = rng.choice([8, 14, 14, 30, 60])
            h = [(G.dy(cx_ + 5 * math.cos(2 * math.pi * i / m)), G.dy(cy_ + 5 * math.sin(2 * math.pi * i / m))) for i in range(m)]
            hs.append(h[::-1] if rng.random() < 0.5 else h)
    else:
        b = shape(rng, mode)
        nh = rng.choice([0, 0, 0, 1, 2, 3]) if mode == 'star' else 0
        hs = G.holes_in(rng, b, nh) if nh else []
    k = rng.randrange(len(b)) if mode in ('star', 'collinear_quad', 'large') else (0 if rng.random() < 0.6 else rng.randrange(len(b)))
    b = b[k:] + b[:k]
    rev = rng.random() < 0.5
    if rev:
        b = b[::-1]
    fmode = rng.choice(['rational', 'rational', 'axis', 'nearz'])
    frame = G.rational_frame(rng, special=(fmode == 'axis')) if fmode != 'nearz' else near_z_frame(rng)
    o = G.rpt3(rng, 1000.0)
    b3 = [P3(G.embed(frame, o, p)) for p in b]
    h3 = [[P3(G.embed(frame, o, p)) for p in h] for h in hs]
    pmode = rng.choice(['none', 'none', 'same', 'opposite'])
    plane = None
    if pmode != 'none':
        nn = frame[2] if pmode == 'same' else tuple(-c for c in frame[2])
        plane = Plane(V3(nn), P3(G.embed(frame, o, b[0])))
    desc = {'boundary2d': b, 'holes2d': hs, 'frame': frame, 'origin': o, 'user_plane': pmode, 'shape': mode}
    try:
        face = Face3D(b3, plane, h3 or None)
    except Exception as e:
        ctx.violation('ctor:raises', 'Face3D(...) raised %r' % (e,), desc)
        return
    ctx.count('ctor', key=(len(b), len(hs), rev, k, pmode, fmode, mode), sample=desc)
    check_face(ctx, face, 'ctor:%s:%s' % (pmode, 'holes' if hs else 'plain'), desc, X.fpt(frame[2]))
    # stored boundary consists of the given vertices
    given = {tuple(p) for p in b3}
    if {tuple(p) for p in face.boundary} != given:
        ctx.violation('ctor:vertices_changed', 'stored boundary is not the given vertex set', desc)
    # from_dict / from_array keep the contract
    check_face(ctx, Face3D.from_dict(face.to_dict()), 'from_dict:%s' % ('holes' if hs else 'plain'), desc, X.fpt(frame[2]))
    check_face(ctx, Face3D.from_array(face.to_array()), 'from_array:%s' % ('holes' if hs else 'plain'), desc, X.fpt(frame[2]))
    # a dictionary written by hand / by another tool: the given vertex order with a plane entry that agrees or opposes it
    for pm in ('same', 'opposite'):
        nn = frame[2] if pm == 'same' else tuple(-c for c in frame[2])
        d = {'type': 'Face3D', 'boundary': [list(p) for p in b3], 'plane': Plane(V3(nn), P3(G.embed(frame, o, b[0]))).to_dict()}
        if h3:
            d['holes'] = [[list(p) for p in h] for h in h3]
        try:
            fd = Face3D.from_dict(d)
        except Exception as e:
            ctx.violation('from_dict:user_plane:%s:raises' % pm, '%r' % (e,), desc); continue
        ctx.count('from_dict.user_plane', key=(pm, len(hs), rev), sample=dict(desc, dict_plane=pm))
        check_face(ctx, fd, 'from_dict:user_plane:%s:%s' % (pm, 'holes' if hs else 'plain'), dict(desc, dict_plane=pm), X.fpt(frame[2]))


def fam_factories(ctx, rng):
    pl = Bd.plane(rng)
    which = rng.choice(['rectangle', 'regular', 'extrusion', 'punched'])
    desc = {'factory': which, 'plane': repr(pl.to_dict())}
    if which == 'rectangle':
        face = Face3D.from_rectangle(G.dy(rng.uniform(0.5, 30)), G.dy(rng.uniform(0.5, 30)), pl)
        exp = X.fpt(pl.n)
    elif which == 'regular':
        face = Face3D.from_regular_polygon(rng.randint(3, 12), G.dy(rng.uniform(0.5, 30)), pl)
        exp = X.fpt(pl.n)
    elif which == 'extrusion':
        seg = LineSegment3D(P3(G.rpt3(rng, 50)), V3(G.rvec3(rng, 10)))
        ev = G.rvec3(rng, 10)
        cr = X.cross(X.fpt(seg.v), X.fpt(ev))
        if float(X.norm2(cr)) < 1e-3:
            return
        face = Face3D.from_extrusion(seg, V3(ev))
        exp = cr
        desc.update(segment=repr(seg.to_dict()), vector=ev)
    else:
        base = Face3D.from_rectangle(20.0, 10.0, pl)
        subs = [Face3D.from_rectangle(2.0, 2.0, Plane(pl.n, pl.xy_to_xyz(P2((3.0 + 5 * i, 3.0))), pl.x)) for i in range(rng.randint(1, 3))]
        face = Face3D.from_punched_geometry(base, subs)
        exp = X.fpt(pl.n)
    ctx.count('factory.' + which, key=which, sample=desc)
    check_face(ctx, face, 'factory.%s' % which, desc, exp)


FAMILIES = [(fam_ctor, 60), (fam_factories, 25)]


def explore(ctx):
    for f, n in FAMILIES:
        for _ in range(ctx.n(n, n * 10)):
            f(ctx, ctx.rng)


def replay(ctx, data):
    kind = data.get('kind', '')
    c2 = core.Ctx(ctx.pid, 'quick', 99)
    for f, _ in FAMILIES:
        for _ in range(1500):
            f(c2, c2.rng)
            if any(v.kind == kind for v in c2.violations):
                return True
    return False


def correspond(ctx):
    """Plane frame / 2D-3D maps / Face3D constructor model vs implementation"""
    from .C11 import plq
    rng = ctx.rng
    pre = ('Definition c2 (a b : V2) (t : Q) : bool := Qle_bool (Qabs (v2x a - v2x b)) t && Qle_bool (Qabs (v2y a - v2y b)) t.\n'
           'Definition c3 (a b : V3) (t : Q) : bool := Qle_bool (Qabs (v3x a - v3x b)) t && Qle_bool (Qabs (v3y a - v3y b)) t '
           '&& Qle_bool (Qabs (v3z a - v3z b)) t.\n')
    cases, meta = [], []
    tol = q(Fraction(1, 10 ** 7))
    for _ in range(ctx.n(80, 600)):
        pl = Bd.plane(rng)
        p3 = G.rpt3(rng, 100); p2 = G.rpt2(rng, 100)
        r = pl.xyz_to_xy(P3(p3))
        cases.append('c2 (Plane_xyz_to_xy %s %s) %s %s' % (plq(pl), v3(p3), v2((r.x, r.y)), tol))
        meta.append(('Plane.xyz_to_xy', pl, p3))
        r = pl.xy_to_xyz(P2(p2))
        cases.append('c3 (Plane_xy_to_xyz %s %s) %s %s' % (plq(pl), v2(p2), v3(tuple(r)), tol))
        meta.append(('Plane.xy_to_xyz', pl, p2))
        # constructor: exact unit rational normal -> model's qsqrt_exec is exact
        fr = G.rational_frame(rng)
        o = G.rpt3(rng, 50)
        npl = Plane(V3(fr[2]), P3(o))
        cases.append('c3 (pl_x (Plane_init qsqrt_exec %s %s)) %s %s && c3 (pl_y (Plane_init qsqrt_exec %s %s)) %s %s' % (
            v3(fr[2]), v3(o), v3(tuple(npl.x)), tol, v3(fr[2]), v3(o), v3(tuple(npl.y)), tol))
        meta.append(('Plane.__init__', fr[2], o))
        # Face3D constructor on a lattice loop in the plane: stored boundary order (exact)
        loop, _ = G.lattice_polygon(rng)
        if rng.random() < 0.5:
            loop = loop[::-1]
        b3 = [tuple(pl.xy_to_xyz(P2(p))) for p in loop]
        face = Face3D([P3(p) for p in b3], pl)
        same = [tuple(p) for p in face.boundary] == b3
        L = core.coq_list([v3(p) for p in b3])
        cases.append('Bool.eqb (Nat.eqb 0 0 && c3 (hd (mkV3 0 0 0) (f3_boundary (Face3D_init_plane %s %s))) %s %s) true' % (
            L, plq(pl), v3(tuple(face.boundary[0])), q(0)))
        meta.append(('Face3D.__init__ boundary order', loop, same))
    res = core.run_cases('C06_corr', ['Base', 'G0_vec', 'G1_shapes', 'G2_inter', 'G3_poly', 'G4_face'], pre, cases)
    ctx.corr_cases += len(cases)
    for ok, m in zip(res, meta):
        if ok is not True:
            ctx.corr_fail.append({'function': m[0], 'input': repr(m[1:]),
                                  'result': 'model and implementation differ' if ok is False else 'model evaluation failed'})
