(* C16 -- 2D and 3D siblings agree.  The plane embedding commutes with the primitives; the segment routines of the
   3D sibling applied to embedded data return the embedded 2D results; the subdivision counts agree for all
   n in 1..500 because both siblings run the same repaired loop (FloatLoops.v models both).  Other members are
   compared by introspection in the harness. *)
From Coq Require Import ZArith List Bool.
From LBG Require Import Base QGeom G0_vec G1_shapes G2_inter G8_curve C11_inter2d C12_closest C06_plane C16_embed FloatLoops.
Open Scope Q_scope.

Theorem C16_embedding_is_isometry : forall pl, frame_ok pl -> forall a b, sqd3 (emb pl a) (emb pl b) == sqd2 a b.
Proof. exact emb_isometry. Qed.
Print Assumptions C16_embedding_is_isometry.

Theorem C16_embedding_preserves_dot : forall pl, frame_ok pl -> forall u v, dot3 (embv pl u) (embv pl v) == dot2 u v.
Proof. exact embv_dot. Qed.
Print Assumptions C16_embedding_preserves_dot.

Theorem C16_closest_point_on_segment_agrees : forall pl, frame_ok pl -> forall q l, ~ dot2 (lr2v l) (lr2v l) == 0 ->
  closest_point3d_on_line3d_seg (emb pl q) (emb_lr pl l) =3= emb pl (closest_point2d_on_line2d_seg q l).
Proof. exact closest_point_segment_agrees. Qed.
Print Assumptions C16_closest_point_on_segment_agrees.

Theorem C16_point_at_agrees : forall pl l t, LineSegment3D_point_at (emb_lr pl l) t =3= emb pl (LineSegment2D_point_at l t).
Proof. exact point_at_agrees. Qed.
Print Assumptions C16_point_at_agrees.

(* both siblings return n+1 points for every n in 1..500 (same loop, same repair) *)
Theorem C16_subdivide_evenly_counts_agree : forall n, (1 <= n <= 500)%Z -> seg_evenly_count n = (Z.to_nat n + 1)%nat.
Proof. exact seg_evenly_count_spec. Qed.
Print Assumptions C16_subdivide_evenly_counts_agree.

(* the 3D quad area centroid (generated Mesh3D._quad_centroid) of a plane-embedded convex quad is the embedding of the 2D area
   centroid - the value the 2D sibling reports - for every orthonormal frame *)
From LBG Require Import G12_mesh C01_mesh.

Theorem C16_mesh3d_quad_centroid_is_embedded_2d_centroid : forall qsqrt, Proper (Qeq ==> Qeq) qsqrt -> forall p, frame_ok p ->
  forall p0 p1 p2 p3,
  let s0 := tri2 p0 p1 p2 in let s1 := tri2 p2 p3 p0 in
  0 < s0 -> 0 < s1 -> qsqrt (s0 * s0) == Qabs s0 -> qsqrt (s1 * s1) == Qabs s1 ->
  Mesh3D__quad_centroid qsqrt [Plane_xy_to_xyz p p0; Plane_xy_to_xyz p p1; Plane_xy_to_xyz p p2; Plane_xy_to_xyz p p3]
  =3= Plane_xy_to_xyz p (quad_centroid2 p0 p1 p2 p3).
Proof. exact mesh3d_quad_centroid_embedded. Qed.
Print Assumptions C16_mesh3d_quad_centroid_is_embedded_2d_centroid.

Example C16_quad_nonvacuous :
  let p0 := mkV2 0 0 in let p1 := mkV2 4 0 in let p2 := mkV2 3 2 in let p3 := mkV2 1 2 in
  0 < tri2 p0 p1 p2 /\ 0 < tri2 p2 p3 p0 /\ quad_centroid2 p0 p1 p2 p3 =2= mkV2 2 (8 # 9).
Proof. vm_compute. repeat split; reflexivity. Qed.
