(* C16_polyline.v -- Polyline3D.remove_colinear_vertices (generated from the source) is the same keep-if-corner scan as its 2D sibling,
   with the test |(a - v) x (n - v)| >= tolerance; and for a polyline embedded by an orthonormal plane frame the two tests agree, so the
   siblings keep the same vertices (sqrt exact on squares: sqrt (x * x) = |x|). *)
From LBG Require Import Base QGeom ListCyc G0_vec G1_shapes G2_inter G3_poly G4_face G8_curve G9_clean C11_inter2d C12_closest C06_plane C16_embed C15_polyline.
Open Scope Q_scope.

Section Generic.
Variables (P : Type) (keep : P -> P -> P -> bool).

Fixpoint gscanp (prev : P) (l : list (P * P)) : list P :=
  match l with [] => [] | (v, n) :: r => if keep prev v n then v :: gscanp v r else gscanp prev r end.

Definition gstep (L : list P) (d : P) (st : list P * Z) (iv : Z * P) : list P * Z :=
  let '(new, skip) := st in let '(i, v) := iv in
  if keep (py_nth L (i - skip) d) v (py_nth L (i + 2) d) then (new ++ [v], 0%Z) else (new, (skip + 1)%Z).

Lemma gloop_is_scan (L : list P) d :
  forall (m : list P) (k : nat) acc (skip : nat) prev,
    (k + 1 + length m < length L)%nat -> (skip <= k)%nat -> nth (k - skip) L d = prev ->
    (forall j, (j < length m)%nat -> nth j m d = nth (k + 1 + j) L d) ->
    fst (fold_left (gstep L d) (enum_from (Z.of_nat k) m) (acc, Z.of_nat skip))
    = acc ++ gscanp prev (combine m (skipn (k + 2) L)).
Proof.
  induction m as [|v m IH]; intros k acc skip prev Hlen Hs Hp Hn.
  - cbn. rewrite app_nil_r. reflexivity.
  - cbn [length] in Hlen. cbn [enum_from fold_left].
    assert (Hnext : exists n r, skipn (k + 2) L = n :: r /\ n = nth (k + 2) L d).
    { destruct (skipn (k + 2) L) as [|n r] eqn:E.
      - exfalso. assert (X : length (skipn (k + 2) L) = (length L - (k + 2))%nat) by apply skipn_length. rewrite E in X. cbn in X. lia.
      - exists n, r. split; [reflexivity|]. rewrite <- (firstn_skipn (k + 2) L) at 1. rewrite E.
        rewrite app_nth2 by (rewrite firstn_length; lia). rewrite firstn_length. replace (k + 2 - Nat.min (k + 2) (length L))%nat with 0%nat by lia.
        reflexivity. }
    destruct Hnext as (n & r & Esk & En).
    rewrite Esk. cbn [combine gscanp].
    assert (Ea : py_nth L (Z.of_nat k - Z.of_nat skip) d = prev).
    { unfold py_nth. replace (Z.of_nat k - Z.of_nat skip <? 0)%Z with false by (symmetry; apply Z.ltb_ge; lia).
      replace (Z.to_nat (Z.of_nat k - Z.of_nat skip)) with (k - skip)%nat by lia. exact Hp. }
    assert (Enx : py_nth L (Z.of_nat k + 2) d = n).
    { unfold py_nth. replace (Z.of_nat k + 2 <? 0)%Z with false by (symmetry; apply Z.ltb_ge; lia).
      replace (Z.to_nat (Z.of_nat k + 2)) with (k + 2)%nat by lia. symmetry. exact En. }
    assert (Ev : v = nth (k + 1) L d) by (specialize (Hn 0%nat ltac:(cbn; lia)); cbn [nth] in Hn; rewrite Nat.add_0_r in Hn; exact Hn).
    assert (Esk' : skipn (S k + 2) L = r) by (replace (S k + 2)%nat with (S (k + 2)) by lia; apply (skipn_step L (k + 2) n r Esk)).
    unfold gstep at 2. cbv zeta. rewrite Ea, Enx.
    replace (Z.of_nat k + 1)%Z with (Z.of_nat (S k)) by lia.
    destruct (keep prev v n).
    + change 0%Z with (Z.of_nat 0). rewrite (IH (S k) (acc ++ [v]) 0%nat v).
      * rewrite Esk', <- app_assoc. reflexivity.
      * lia.
      * lia.
      * rewrite Nat.sub_0_r. replace (S k) with (k + 1)%nat by lia. symmetry. exact Ev.
      * intros j Hj. specialize (Hn (S j) ltac:(cbn; lia)). cbn [nth] in Hn. rewrite Hn. f_equal. lia.
    + replace (Z.of_nat skip + 1)%Z with (Z.of_nat (S skip)) by lia. rewrite (IH (S k) acc (S skip) prev).
      * rewrite Esk'. reflexivity.
      * lia.
      * lia.
      * replace (S k - S skip)%nat with (k - skip)%nat by lia. exact Hp.
      * intros j Hj. specialize (Hn (S j) ltac:(cbn; lia)). cbn [nth] in Hn. rewrite Hn. f_equal. lia.
Qed.

(* mapping the points through any function that preserves the test maps the scan *)
Lemma gscanp_map (Q' : Type) (keep' : Q' -> Q' -> Q' -> bool) (f : P -> Q') :
  (forall a v n, keep' (f a) (f v) (f n) = keep a v n) ->
  forall l prev, (fix go (prev : Q') (l : list (Q' * Q')) : list Q' :=
                    match l with [] => [] | (v, n) :: r => if keep' prev v n then v :: go v r else go prev r end)
                 (f prev) (map (fun vn => (f (fst vn), f (snd vn))) l) = map f (gscanp prev l).
Proof.
  intros H. induction l as [|[v n] l IH]; intros prev; [reflexivity|]. cbn [map fst snd gscanp]. rewrite H.
  destruct (keep prev v n); cbn [map]; rewrite IH; reflexivity.
Qed.
End Generic.

Definition keep3 (qsqrt : Q -> Q) (tol : Q) (a v n : V3) : bool :=
  Qle_bool tol (Vector3D_magnitude qsqrt (Vector3D_cross (Vector3D_op_sub a v) (Vector3D_op_sub n v))).
Definition keep2 (tol : Q) (a v n : V2) : bool := Qle_bool tol (Qabs (tri2 a v n)).

Theorem polyline3_remove_colinear_spec qsqrt (p : Polyline3R) tol :
  let L := pl3_vertices p in (3 <= length L)%nat -> length L <> 3%nat ->
  pl3_vertices (Polyline3D_remove_colinear_vertices qsqrt p tol)
  = hd (mkV3 0 0 0) L :: gscanp V3 (keep3 qsqrt tol) (hd (mkV3 0 0 0) L) (combine (removelast (tl L)) (tl (tl L))) ++ [last L (mkV3 0 0 0)]
  /\ pl3_interp (Polyline3D_remove_colinear_vertices qsqrt p tol) = pl3_interp p.
Proof.
  cbv zeta. intros H3 E. unfold Polyline3D_remove_colinear_vertices. cbv zeta. set (L := pl3_vertices p) in *.
  replace (py_len L =? 3)%Z with false by (symmetry; apply Z.eqb_neq; unfold py_len; lia).
  set (d := mkV3 0 0 0).
  rewrite (fold_left_ext _ (gstep V3 (keep3 qsqrt tol) L d)).
  2:{ intros [new skip] [i v]. unfold gstep, keep3, Base2DIn3D_op_getitem. fold L. fold d. destruct (Qle_bool tol _); reflexivity. }
  rewrite middle_slice by lia.
  set (m := removelast (tl L)).
  assert (Lm : length m = (length L - 2)%nat).
  { unfold m. rewrite removelast_firstn_len, firstn_length. destruct L as [|x r]; cbn [tl length] in *; lia. }
  assert (Nm : forall j, (j < length m)%nat -> nth j m d = nth (0 + 1 + j) L d).
  { intros j Hj. unfold m. rewrite removelast_firstn_len. rewrite nth_firstn_lt.
    - destruct L as [|x r]; [cbn in H3; lia|]. reflexivity.
    - rewrite Lm in Hj. destruct L as [|x r]; cbn [tl length] in *; lia. }
  pose proof (gloop_is_scan V3 (keep3 qsqrt tol) L d m 0 [py_nth L 0 d] 0 (nth 0 L d) ltac:(lia) ltac:(lia) eq_refl Nm) as LS.
  change (Z.of_nat 0) with 0%Z in LS. unfold py_enumerate.
  destruct (fold_left (gstep V3 (keep3 qsqrt tol) L d) (enum_from 0 m) ([py_nth L 0 d], 0%Z)) as [new skip] eqn:EF.
  cbn [fst] in LS. unfold Polyline3D_op_init, Face3D__check_vertices_input. cbv zeta. cbn [pl3_vertices pl3_interp]. rewrite LS.
  assert (H0 : py_nth L 0 d = hd d L) by (destruct L; reflexivity).
  assert (H0' : nth 0 L d = hd d L) by (destruct L; reflexivity).
  assert (HL : Base2DIn3D_op_getitem p (-1) = last L d).
  { unfold Base2DIn3D_op_getitem, py_nth. fold L. fold d. replace (-1 <? 0)%Z with true by reflexivity.
    replace (Z.to_nat (Z.of_nat (length L) + -1)) with (length L - 1)%nat by lia. apply nth_last. }
  rewrite H0, H0', HL.
  replace (skipn (0 + 2) L) with (tl (tl L)) by (destruct L as [|x [|y r]]; reflexivity).
  split; [cbn [app]; reflexivity | reflexivity].
Qed.

(* ---- the two tests agree on plane-embedded data ---------------------------------------------------------------------------- *)
Section Agree.
Variable pl : PlaneR.
Hypothesis F : frame_ok pl.
Variable qsqrt : Q -> Q.
Hypothesis sqrt_proper : Proper (Qeq ==> Qeq) qsqrt.
Hypothesis sqrt_square : forall x, qsqrt (x * x) == Qabs x.

Lemma lagrange a b : dot3 (cross3 a b) (cross3 a b) == dot3 a a * dot3 b b - dot3 a b * dot3 a b.
Proof. unfold dot3, cross3. cbn [v3x v3y v3z]. ring. Qed.

Lemma cross_emb_sq a v n :
  let w := Vector3D_cross (Vector3D_op_sub (emb pl a) (emb pl v)) (Vector3D_op_sub (emb pl n) (emb pl v)) in
  v3x w * v3x w + v3y w * v3y w + v3z w * v3z w == tri2 a v n * tri2 a v n.
Proof.
  cbv zeta.
  assert (E1 : Vector3D_op_sub (emb pl a) (emb pl v) =3= embv pl (sub2 a v)) by (rewrite <- (emb_sub pl a v); unfold Vector3D_op_sub, sub3; apply v3eq_refl).
  assert (E2 : Vector3D_op_sub (emb pl n) (emb pl v) =3= embv pl (sub2 n v)) by (rewrite <- (emb_sub pl n v); unfold Vector3D_op_sub, sub3; apply v3eq_refl).
  set (A := Vector3D_op_sub (emb pl a) (emb pl v)) in *. set (B := Vector3D_op_sub (emb pl n) (emb pl v)) in *.
  assert (C : Vector3D_cross A B =3= cross3 A B) by (unfold Vector3D_cross, cross3, v3eq; cbn [v3x v3y v3z]; repeat split; ring).
  change (v3x (Vector3D_cross A B) * v3x (Vector3D_cross A B) + v3y (Vector3D_cross A B) * v3y (Vector3D_cross A B)
          + v3z (Vector3D_cross A B) * v3z (Vector3D_cross A B)) with (dot3 (Vector3D_cross A B) (Vector3D_cross A B)).
  rewrite C, lagrange, E1, E2, !(embv_dot pl F).
  unfold dot2, sub2, tri2, det2. cbn [v2x v2y]. ring.
Qed.

Theorem keep_tests_agree tol a v n : keep3 qsqrt tol (emb pl a) (emb pl v) (emb pl n) = keep2 tol a v n.
Proof.
  unfold keep3, keep2, Vector3D_magnitude, Vector3D_op_abs.
  pose proof (cross_emb_sq a v n) as H. cbv zeta in H. rewrite H, sqrt_square. reflexivity.
Qed.

(* hence the 3D scan of the embedded chain is the image of the 2D scan *)
Theorem scans_agree tol prev (l : list (V2 * V2)) :
  gscanp V3 (keep3 qsqrt tol) (emb pl prev) (map (fun vn => (emb pl (fst vn), emb pl (snd vn))) l)
  = map (emb pl) (gscanp V2 (keep2 tol) prev l).
Proof.
  revert prev. induction l as [|[v n] l IH]; intros prev; [reflexivity|]. cbn [map fst snd gscanp]. rewrite keep_tests_agree.
  destruct (keep2 tol prev v n); cbn [map]; rewrite IH; reflexivity.
Qed.
End Agree.

(* the 2D specification of C15 is the same generic scan with the 2D test *)
Lemma scanp_is_gscanp tol l : forall prev, scanp tol prev l = gscanp V2 (keep2 tol) prev l.
Proof. induction l as [|[v n] l IH]; intros prev; [reflexivity|]. cbn [scanp gscanp]. unfold keep2 at 1. destruct (Qle_bool tol _); rewrite IH; reflexivity. Qed.

Lemma combine_map {A B} (f : A -> B) (a b : list A) : combine (map f a) (map f b) = map (fun vn => (f (fst vn), f (snd vn))) (combine a b).
Proof. revert b. induction a as [|x a IH]; intros [|y b]; cbn [map combine fst snd]; try reflexivity. rewrite IH. reflexivity. Qed.

Lemma removelast_map {A B} (f : A -> B) (l : list A) : removelast (map f l) = map f (removelast l).
Proof. induction l as [|x l IH]; [reflexivity|]. destruct l as [|y l]; [reflexivity|]. cbn [map removelast] in *. rewrite IH. reflexivity. Qed.

Lemma tl_map {A B} (f : A -> B) (l : list A) : tl (map f l) = map f (tl l).
Proof. destruct l; reflexivity. Qed.

Theorem polyline_siblings_keep_the_same_vertices pl qsqrt (L : list V2) i tol :
  frame_ok pl -> Proper (Qeq ==> Qeq) qsqrt -> (forall x, qsqrt (x * x) == Qabs x) ->
  (4 <= length L)%nat ->
  pl3_vertices (Polyline3D_remove_colinear_vertices qsqrt (mkPolyline3 (map (emb pl) L) i) tol)
  = map (emb pl) (pl2_vertices (Polyline2D_remove_colinear_vertices (mkPolyline2 L i) tol)).
Proof.
  intros F P S H4.
  destruct (polyline3_remove_colinear_spec qsqrt (mkPolyline3 (map (emb pl) L) i) tol) as [E3 _];
    [cbn [pl3_vertices]; rewrite map_length; lia | cbn [pl3_vertices]; rewrite map_length; lia |].
  destruct (polyline_remove_colinear_spec (mkPolyline2 L i) tol) as [_ E2]; [cbn [pl2_vertices]; lia|].
  rewrite E3, (E2 ltac:(cbn [pl2_vertices]; lia)). cbn [pl3_vertices pl2_vertices].
  rewrite scan_scanp, scanp_is_gscanp.
  destruct L as [|x r]; [cbn in H4; lia|].
  cbn [map hd tl]. rewrite map_app. cbn [map].
  rewrite removelast_map, tl_map, combine_map, (scans_agree pl F qsqrt P S).
  f_equal. f_equal.
  change (emb pl x :: map (emb pl) r) with (map (emb pl) (x :: r)).
  f_equal. rewrite (last_indep (map (emb pl) (x :: r)) (mkV3 0 0 0) (emb pl (mkV2 0 0))) by discriminate.
  apply (last_map (emb pl) (x :: r) (mkV2 0 0)).
Qed.
