"""C18  joining segments and extracting outlines conserve the input."""
import math
from fractions import Fraction
from .. import core, gens as G, exact as X, build as Bd
from ..core import z
from ..build import P2, V2, P3, V3
from ladybug_geometry.geometry2d import Polygon2D, Polyline2D, LineSegment2D
from ladybug_geometry.geometry3d import Polyline3D, LineSegment3D, Face3D, Plane

RULE = ('segment soups from cutting 1..6 random polylines / closed loops into segments, shuffled, randomly flipped, end points '
        'jittered below tol/4 (2D and 3D); lattice tilings (polyominoes cut into rectangles, with/without enclosed voids, '
        'T-junctions) judged exactly by cell sets; distinct by (dimension, chain count, closed/open mix, tiling shape)')
ASSUMPTIONS = ['chains are generated with pairwise distinct vertices at distance >= 1 so that the only coincidences are the intended joints']
TRUSTED = ['JoinSeg.v models _group_vertices / _build_polyline / _connect_seg_to_poly with EXACT end-point matching, tied by correspondence '
           'on integer soups']
TOL = 0.01


def distinct_points(rng, n, d3, used):
    pts = []
    while len(pts) < n:
        p = tuple(float(rng.randint(-30, 30)) for _ in range(3 if d3 else 2))
        if all(max(abs(a - b) for a, b in zip(p, q)) >= 1 for q in used | set(pts)):
            pts.append(p)
    return pts


def fam_soup(ctx, rng):
    d3 = rng.random() < 0.4
    nchains = rng.randint(1, 6)
    small = rng.random() < 0.2        # the smallest soups: one chain of two or three segments
    if small:
        nchains = 1
        d3 = rng.random() < 0.6
    used = set()
    chains = []
    for _ in range(nchains):
        k = rng.choice([3, 3, 4]) if small else rng.randint(2, 7)
        pts = distinct_points(rng, k, d3, used)
        used |= set(pts)
        closed = k >= 3 and rng.random() < 0.4 and not small
        chains.append((pts, closed))
    segs = []
    for pts, closed in chains:
        pairs = list(zip(pts, pts[1:])) + ([(pts[-1], pts[0])] if closed else [])
        for a, b in pairs:
            if rng.random() < 0.5:
                a, b = b, a
            j = TOL / 4.1
            ja = tuple(c + rng.uniform(-j, j) for c in a) if rng.random() < 0.5 else a
            jb = tuple(c + rng.uniform(-j, j) for c in b) if rng.random() < 0.5 else b
            segs.append((ja, jb))
    rng.shuffle(segs)
    far = rng.random() < 0.3
    if far:
        # the same soup far from the origin (coordinates up to 1e4, the spacing of the points unchanged)
        off = tuple(float(rng.choice([-1, 1]) * rng.randint(2000, 9000)) for _ in range(3 if d3 else 2))
        segs = [(tuple(c + o for c, o in zip(a, off)), tuple(c + o for c, o in zip(b, off))) for a, b in segs]
    if d3:
        objs = [LineSegment3D.from_end_points(P3(a), P3(b)) for a, b in segs]
        res = Polyline3D.join_segments(objs, TOL)
    else:
        objs = [LineSegment2D.from_end_points(P2(a), P2(b)) for a, b in segs]
        res = Polyline2D.join_segments(objs, TOL)
    desc = {'segments': segs, '3d': d3, 'chains': [(len(p), c) for p, c in chains], 'far_from_origin': far}
    ctx.count('soup.%s' % ('3d' if d3 else '2d'), key=(nchains, tuple(sorted((len(p), c) for p, c in chains))), sample=desc,
              nontrivial=len(segs) > 1)
    kind = 'join_segments:%s' % ('3d' if d3 else '2d')
    # every input segment used exactly once
    out_edges = []
    for r in res:
        vs = list(r.vertices)
        out_edges += [(tuple(vs[i]), tuple(vs[i + 1])) for i in range(len(vs) - 1)]
    if len(out_edges) != len(segs):
        ctx.violation(kind + ':segment_count', '%d input segments, %d segments in the result' % (len(segs), len(out_edges)), desc); return
    rem = list(segs)
    for e in out_edges:
        hit = None
        for s in rem:
            if (close(e[0], s[0]) and close(e[1], s[1])) or (close(e[0], s[1]) and close(e[1], s[0])):
                hit = s; break
        if hit is None:
            ctx.violation(kind + ':segment_not_input', 'a result segment is not an input segment', desc); return
        rem.remove(hit)
    tot_in = sum(math.dist(a, b) for a, b in segs)
    tot_out = sum(r.length for r in res)
    if abs(tot_in - tot_out) > 1e-9 * max(1.0, tot_in) + 4 * TOL * len(segs):
        ctx.violation(kind + ':length', 'total length %r -> %r' % (tot_in, tot_out), desc); return
    # maximal: as many results as chains (no two open chains left unjoined)
    if len(res) != nchains:
        ctx.violation(kind + ':not_maximal', '%d chains were cut, %d polylines/segments returned' % (nchains, len(res)), desc)


def close(a, b):
    return max(abs(x - y) for x, y in zip(a, b)) <= TOL


def cut_into_rectangles(cells, rng):
    """partition a cell set into axis-aligned rectangles (greedy, random order): list of (x0,y0,x1,y1)"""
    rem = set(cells)
    rects = []
    while rem:
        c = rng.choice(sorted(rem))
        x0, y0 = c
        x1 = x0 + 1
        while (x1, y0) in rem and rng.random() < 0.7:
            x1 += 1
        y1 = y0 + 1
        while all((i, y1) in rem for i in range(x0, x1)) and rng.random() < 0.7:
            y1 += 1
        for i in range(x0, x1):
            for j in range(y0, y1):
                rem.discard((i, j))
        rects.append((x0, y0, x1, y1))
    return rects


def tiling(rng):
    mode = rng.choice(['polyomino', 'polyomino', 'ring', 'components', 'components'])
    if mode == 'components':
        # two or three separate outlines; one that is NOT the largest encloses a void
        bw, bh = rng.randint(5, 7), rng.randint(5, 7)
        big = G.rect_cells(0, 0, bw, bh)
        if rng.random() < 0.6:
            # the large outline has a void of its own (smaller or larger than the other outline's void)
            vx, vy = rng.randint(1, bw - 3), rng.randint(1, bh - 3)
            big = big - G.rect_cells(vx, vy, vx + rng.randint(1, bw - 1 - vx - 1 + 1), vy + rng.randint(1, 2))
        n = rng.randint(3, 5); ox = 10
        ring = {(i + ox, j) for i, j in (G.rect_cells(0, 0, n, n) - G.rect_cells(1, 1, rng.randint(2, n - 1), n - 1))}
        cells = big | ring
        if rng.random() < 0.5:
            cells |= {(i + 20, j) for i, j in G.rect_cells(0, 0, 2, rng.randint(1, 3))}
    elif mode == 'ring':
        n = rng.randint(3, 5)
        cells = G.rect_cells(0, 0, n, n) - G.rect_cells(1, 1, n - 1, n - 1)
    else:
        cells = G.polyomino(rng, ncells=rng.randint(3, 14), w=6, h=6)
    return mode, cells, cut_into_rectangles(cells, rng)


def region_cells(polys, box):
    from .C04 import cells_of_result
    return cells_of_result(polys, *box)


def fam_tiling(ctx, rng):
    mode, cells, rects = tiling(rng)
    if len(rects) < 2:
        return
    polys = []
    far = rng.random() < 0.3
    if far:
        # the same tiling far from the origin (unit cells at coordinates up to 1e4)
        ox, oy = rng.choice([-1, 1]) * rng.randint(2000, 9000), rng.choice([-1, 1]) * rng.randint(2000, 9000)
        cells = {(i + ox, j + oy) for i, j in cells}
        rects = [(x0 + ox, y0 + oy, x1 + ox, y1 + oy) for (x0, y0, x1, y1) in rects]
    # long thin tiles: the x direction stretched by K (a 1 x K tile is K times longer than wide; tolerance stays 0.01)
    K = 1.0 if far else float(rng.choice([1, 1, 1, 150, 400]))      # coordinates stay within 1e4
    for (x0, y0, x1, y1) in rects:
        pts = [(K * x0, float(y0)), (K * x1, float(y0)), (K * x1, float(y1)), (K * x0, float(y1))]
        if rng.random() < 0.5: pts = pts[::-1]
        k = rng.randrange(4); pts = pts[k:] + pts[:k]
        polys.append(Polygon2D([P2(p) for p in pts]))
    xs = [c[0] for c in cells]; ys = [c[1] for c in cells]
    box = (min(xs) - 1, min(ys) - 1, max(xs) + 2, max(ys) + 2)
    desc = {'rectangles': rects, 'shape': mode, 'x_stretch': K}
    ctx.count('tiling.' + mode, key=(len(cells), len(rects)), sample=desc)
    which = rng.choice(['polygon', 'face'])
    try:
        if which == 'polygon':
            res = Polygon2D.joined_intersected_boundary(polys, TOL)
            res = [Polygon2D([P2((v.x / K, v.y)) for v in p_.vertices]) for p_ in res]
            got = region_cells(res, box)
        else:
            pl = Plane(V3((0.0, 0.0, 1.0)), P3((0.0, 0.0, 2.0)))
            faces = [Face3D([P3((v.x, v.y, 2.0)) for v in p.vertices]) for p in polys]
            out = Face3D.join_coplanar_faces(faces, TOL)
            loops = []
            for f in out:
                loops.append(Polygon2D([P2((v.x / K, v.y)) for v in f.boundary]))
                for h in (f.holes or ()):
                    loops.append(Polygon2D([P2((v.x / K, v.y)) for v in h]))
            got = region_cells(loops, box)
    except Exception as e:
        ctx.violation('outline.%s:%s:raises' % (which, mode), '%r' % (e,), desc); return
    if got is None or got != set(cells):
        ctx.violation('outline.%s:%s:wrong_region' % (which, mode), 'outline region differs from the union of the tiles: extra %s missing %s' % (
            sorted((got or set()) - set(cells))[:5], sorted(set(cells) - (got or set()))[:5]), desc); return
    # the outline is made of simple loops and encloses exactly the tiled area (a self-crossing loop can pass the even-odd reading)
    all_loops = res if which == 'polygon' else loops
    for lp in all_loops:
        f = [X.fpt(v) for v in lp.vertices]
        if not X.is_simple(f):
            ctx.violation('outline.%s:%s:self_crossing' % (which, mode), 'a returned outline loop is not a simple polygon', desc); return
    if which == 'face':
        tot = sum(f.area for f in out) / K
        if abs(tot - len(cells)) > 1e-6 * len(cells):
            ctx.violation('outline.%s:%s:area' % (which, mode), 'joined faces have area %r, the tiles cover %d' % (tot, len(cells)), desc); return
    else:
        # loops of a tiling with voids: outer loops minus void loops (nesting depth by exact containment of one vertex)
        tot = Fraction(0)
        L = [[X.fpt(v) for v in lp.vertices] for lp in res]
        for i, lp in enumerate(L):
            depth = sum(1 for j, other in enumerate(L) if j != i and X.winding_inside(other, ((lp[0][0] + lp[1][0]) / 2, (lp[0][1] + lp[1][1]) / 2)) is True)
            tot += X.area(lp) * (-1) ** depth
        if tot != len(cells):
            ctx.violation('outline.%s:%s:area' % (which, mode), 'outline loops enclose area %s, the tiles cover %d' % (float(tot), len(cells)), desc)


FAMILIES = [(fam_soup, 120), (fam_tiling, 90)]


def explore(ctx):
    for fn, n in FAMILIES:
        for _ in range(ctx.n(n, n * 10)):
            fn(ctx, ctx.rng)


def replay(ctx, data):
    kind = data.get('kind', '')
    c2 = core.Ctx(ctx.pid, 'quick', 47)
    for fn, _ in FAMILIES:
        for _ in range(3000):
            fn(c2, c2.rng)
            if any(v.kind == kind for v in c2.violations):
                return True
    return False


def correspond(ctx):
    """JoinSeg.v (exact matching) vs Polyline2D.join_segments on integer soups: identical chains, vertex for vertex"""
    rng = ctx.rng
    cases, meta = [], []
    for _ in range(ctx.n(150, 1000)):
        nch = rng.randint(1, 4)
        used = set(); segs = []
        for _ in range(nch):
            k = rng.randint(2, 5)
            pts = distinct_points(rng, k, False, used); used |= set(pts)
            closed = k >= 3 and rng.random() < 0.4
            pairs = list(zip(pts, pts[1:])) + ([(pts[-1], pts[0])] if closed else [])
            for a, b in pairs:
                segs.append((b, a) if rng.random() < 0.5 else (a, b))
        rng.shuffle(segs)
        if len(segs) < 2:
            continue
        objs = [LineSegment2D.from_end_points(P2(a), P2(b)) for a, b in segs]
        res = Polyline2D.join_segments(objs, 0.0)
        def pt(p): return '(%s, %s)' % (z(int(p[0])), z(int(p[1])))
        S = core.coq_list(['(%s, %s)' % (pt(a), pt(b)) for a, b in segs])
        R = core.coq_list([core.coq_list([pt(tuple(v)) for v in r.vertices]) for r in res])
        cases.append('chains_eqb (group_vertices %s) %s' % (S, R))
        meta.append(segs)
    res = core.run_cases('C18_corr', ['JoinSeg'], '', cases,
                         header='From Coq Require Import ZArith List Bool.\nImport ListNotations.\nFrom LBG Require Import JoinSeg.\n')
    ctx.corr_cases += len(cases)
    for ok, m in zip(res, meta):
        if ok is not True:
            ctx.corr_fail.append({'function': 'join_segments', 'input': repr(m),
                                  'result': 'model and implementation differ' if ok is False else 'model evaluation failed'})
