(* CellSpec.v -- executable SPECIFICATION of Boolean operations on lattice regions as finite sets
   of unit cells (a region = duplicate-free sorted list of cells is not required: membership is what counts). *)
From Coq Require Import ZArith List Bool Lia.
Import ListNotations.
Open Scope Z_scope.

Definition cell := (Z * Z)%type.
Definition cell_eqb (a b : cell) : bool := (fst a =? fst b) && (snd a =? snd b).
Lemma cell_eqb_eq a b : cell_eqb a b = true <-> a = b.
Proof.
  destruct a, b. unfold cell_eqb. cbn. rewrite andb_true_iff, !Z.eqb_eq. split; [intros [-> ->]; reflexivity| intros H; inversion H; auto].
Qed.
Definition mem (c : cell) (s : list cell) : bool := existsb (cell_eqb c) s.
Lemma mem_In c s : mem c s = true <-> In c s.
Proof.
  unfold mem. rewrite existsb_exists. split.
  - intros (x & Hx & E). apply cell_eqb_eq in E. subst. exact Hx.
  - intros H. exists c. split; [exact H| apply cell_eqb_eq; reflexivity].
Qed.

Fixpoint dedup (s : list cell) : list cell :=
  match s with [] => [] | c :: r => if mem c r then dedup r else c :: dedup r end.
Lemma dedup_In c s : In c (dedup s) <-> In c s.
Proof.
  induction s as [|x r IH]; [tauto|]. cbn. destruct (mem x r) eqn:E.
  - rewrite IH. split; [auto|]. intros [->|H]; [apply mem_In; exact E| exact H].
  - cbn. rewrite IH. tauto.
Qed.
Lemma dedup_NoDup s : NoDup (dedup s).
Proof.
  induction s as [|x r IH]; [constructor|]. cbn. destruct (mem x r) eqn:E; [exact IH|].
  constructor; [|exact IH]. rewrite dedup_In. intro H. apply mem_In in H. congruence.
Qed.

Definition cunion (a b : list cell) : list cell := dedup (a ++ b).
Definition cinter (a b : list cell) : list cell := dedup (filter (fun c => mem c b) a).
Definition cdiff (a b : list cell) : list cell := dedup (filter (fun c => negb (mem c b)) a).
Definition cxor (a b : list cell) : list cell := cunion (cdiff a b) (cdiff b a).
Definition area (s : list cell) : Z := Z.of_nat (length (dedup s)).

Lemma cunion_spec a b c : In c (cunion a b) <-> In c a \/ In c b.
Proof. unfold cunion. rewrite dedup_In, in_app_iff. tauto. Qed.
Lemma cinter_spec a b c : In c (cinter a b) <-> In c a /\ In c b.
Proof. unfold cinter. rewrite dedup_In, filter_In, mem_In. tauto. Qed.
Lemma cdiff_spec a b c : In c (cdiff a b) <-> In c a /\ ~ In c b.
Proof.
  unfold cdiff. rewrite dedup_In, filter_In, negb_true_iff. split.
  - intros [H1 H2]. split; [exact H1|]. intro H. apply mem_In in H. congruence.
  - intros [H1 H2]. split; [exact H1|]. destruct (mem c b) eqn:E; [apply mem_In in E; tauto| reflexivity].
Qed.
Lemma cxor_spec a b c : In c (cxor a b) <-> (In c a /\ ~ In c b) \/ (In c b /\ ~ In c a).
Proof. unfold cxor. rewrite cunion_spec, !cdiff_spec. tauto. Qed.

(* counting: |A u B| + |A n B| = |A| + |B|  (inclusion-exclusion), |A| = |A n B| + |A \ B| *)
Lemma NoDup_length_partition (P : cell -> bool) s : NoDup s ->
  length s = (length (filter P s) + length (filter (fun c => negb (P c)) s))%nat.
Proof. intros _. induction s as [|x r IH]; [reflexivity|]. cbn. destruct (P x); cbn; lia. Qed.

Lemma NoDup_filter {A} (f : A -> bool) l : NoDup l -> NoDup (filter f l).
Proof.
  induction 1 as [|x l Hx Hl IH]; cbn; [constructor|]. destruct (f x); [|exact IH].
  constructor; [|exact IH]. intro H. apply filter_In in H. tauto.
Qed.

Lemma same_elements_length (a b : list cell) : NoDup a -> NoDup b -> (forall c, In c a <-> In c b) -> length a = length b.
Proof.
  intros Ha Hb H. apply Nat.le_antisymm; apply NoDup_incl_length; auto; intros c Hc; apply H; exact Hc.
Qed.

Lemma dedup_id s : NoDup s -> dedup s = s.
Proof.
  induction 1 as [|x l Hx Hl IH]; [reflexivity|]. cbn. destruct (mem x l) eqn:E; [apply mem_In in E; tauto|]. rewrite IH. reflexivity.
Qed.

Theorem area_split a b : area a = area (cinter a b) + area (cdiff a b).
Proof.
  unfold area, cinter, cdiff.
  set (A := dedup a). assert (HA : NoDup A) by apply dedup_NoDup.
  rewrite (NoDup_length_partition (fun c => mem c b) A HA).
  rewrite Nat2Z.inj_add. f_equal; f_equal.
  - apply same_elements_length; [apply NoDup_filter; exact HA| apply dedup_NoDup|].
    intro c. rewrite !dedup_In, !filter_In. unfold A. rewrite dedup_In. tauto.
  - apply same_elements_length; [apply NoDup_filter; exact HA| apply dedup_NoDup|].
    intro c. rewrite !dedup_In, !filter_In. unfold A. rewrite dedup_In. tauto.
Qed.

Lemma NoDup_app_disjoint {A} (l l' : list A) : NoDup l -> NoDup l' -> (forall x, In x l -> ~ In x l') -> NoDup (l ++ l').
Proof.
  induction 1 as [|x l Hx Hl IH]; intros H' D; [exact H'|]. cbn. constructor.
  - rewrite in_app_iff. intros [K|K]; [tauto| apply (D x); [left; reflexivity| exact K]].
  - apply IH; [exact H'| intros y Hy; apply D; right; exact Hy].
Qed.

Theorem union_area_disjoint a b : area (cunion a b) = area a + area (cdiff b a).
Proof.
  unfold area. rewrite <- Nat2Z.inj_add, <- app_length. f_equal.
  apply same_elements_length.
  - apply dedup_NoDup.
  - apply NoDup_app_disjoint; try apply dedup_NoDup.
    intros x Hx Hx'. rewrite dedup_In in Hx, Hx'. apply cdiff_spec in Hx'. tauto.
  - intro c. rewrite in_app_iff, !dedup_In, cunion_spec, cdiff_spec.
    destruct (mem c a) eqn:E; [apply mem_In in E; tauto|].
    assert (~ In c a) by (intro K; apply mem_In in K; congruence). tauto.
Qed.

Theorem inclusion_exclusion a b : area (cunion a b) + area (cinter a b) = area a + area b.
Proof.
  rewrite union_area_disjoint, (area_split b a).
  assert (C : area (cinter a b) = area (cinter b a)).
  { unfold area. f_equal. apply same_elements_length; try apply dedup_NoDup.
    intro c. rewrite !dedup_In, !cinter_spec. tauto. }
  lia.
Qed.

(* split(A, B) = (A n B, A \ B, B \ A): the parts partition each operand *)
Theorem split_partitions a b c :
  (In c a <-> In c (cinter a b) \/ In c (cdiff a b)) /\ ~ (In c (cinter a b) /\ In c (cdiff a b)) /\
  (In c b <-> In c (cinter a b) \/ In c (cdiff b a)) /\ ~ (In c (cinter a b) /\ In c (cdiff b a)).
Proof.
  rewrite !cinter_spec, !cdiff_spec.
  destruct (mem c a) eqn:Ea, (mem c b) eqn:Eb;
  repeat match goal with
  | H : mem _ _ = true |- _ => apply mem_In in H
  | H : mem ?c ?s = false |- _ => assert (~ In c s) by (intro K; apply mem_In in K; congruence); clear H
  end; tauto.
Qed.

Theorem xor_area a b : area (cxor a b) = area (cdiff a b) + area (cdiff b a).
Proof.
  unfold cxor. rewrite union_area_disjoint. f_equal.
  unfold area. f_equal. apply same_elements_length; try apply dedup_NoDup.
  intro c. rewrite !dedup_In, !cdiff_spec. tauto.
Qed.

(* n-ary folds *)
Definition cunion_all (l : list (list cell)) : list cell := fold_left cunion l [].
Definition cinter_all (l : list (list cell)) : list cell :=
  match l with [] => [] | a :: r => fold_left cinter r a end.

Lemma fold_cunion_spec l : forall acc c, In c (fold_left cunion l acc) <-> In c acc \/ exists s, In s l /\ In c s.
Proof.
  induction l as [|s r IH]; intros acc c; cbn [fold_left].
  - split; [auto| intros [H|(s & [] & _)]; exact H].
  - rewrite IH, cunion_spec. split.
    + intros [[H|H]|(s' & H1 & H2)]; [left; exact H| right; exists s; split; [left; reflexivity| exact H]| right; exists s'; split; [right; exact H1| exact H2]].
    + intros [H|(s' & [<-|H1] & H2)]; [left; left; exact H| left; right; exact H2| right; exists s'; split; assumption].
Qed.

Theorem cunion_all_spec l c : In c (cunion_all l) <-> exists s, In s l /\ In c s.
Proof. unfold cunion_all. rewrite fold_cunion_spec. split; [intros [[]|H]; exact H| intros H; right; exact H]. Qed.

Lemma fold_cinter_spec l : forall acc c, In c (fold_left cinter l acc) <-> In c acc /\ forall s, In s l -> In c s.
Proof.
  induction l as [|s r IH]; intros acc c; cbn [fold_left].
  - split; [intros H; split; [exact H| intros s []]| intros [H _]; exact H].
  - rewrite IH, cinter_spec. split.
    + intros [[H1 H2] H3]. split; [exact H1| intros s' [<-|H]; [exact H2| apply H3; exact H]].
    + intros [H1 H2]. split; [split; [exact H1| apply H2; left; reflexivity]| intros s' H; apply H2; right; exact H].
Qed.

Theorem cinter_all_spec a r c : In c (cinter_all (a :: r)) <-> forall s, In s (a :: r) -> In c s.
Proof.
  unfold cinter_all. rewrite fold_cinter_spec. split.
  - intros [H1 H2] s [<-|H]; [exact H1| apply H2; exact H].
  - intros H. split; [apply H; left; reflexivity| intros s Hs; apply H; right; exact Hs].
Qed.
