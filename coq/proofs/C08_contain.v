(* C08: ray-crossing containment test = parity of the crossing count; each crossing test is the exact
   closed-segment / closed-ray intersection criterion; on-edge = some segment within tolerance. *)
From LBG Require Import Base QGeom ListCyc G0_vec G1_shapes G2_inter G3_poly G7_contain C11_inter2d.
Open Scope Q_scope.

Definition crosses (ray : LR2) (s : LR2) : bool := does_intersection_exist_line2d_seg_ray s ray.
Definition crossing_count (p : Polygon2R) (pt v : V2) : nat :=
  length (filter (crosses (mkLR2 pt v)) (Polygon2D_segments p)).

Lemma count_fold (f : LR2 -> bool) l : forall n : nat,
  fold_left (fun n_int u_s => let n_int := (if f u_s then let n_int := (n_int + (1%Z))%Z in n_int else n_int) in n_int) l (Z.of_nat n)
  = Z.of_nat (n + length (filter f l)).
Proof.
  induction l as [|x r IH]; intros n; cbn [fold_left filter].
  - rewrite Nat.add_0_r. reflexivity.
  - destruct (f x); cbn [length].
    + replace (Z.of_nat n + 1)%Z with (Z.of_nat (S n)) by lia. rewrite IH. f_equal. lia.
    + apply IH.
Qed.

Theorem is_point_inside_is_crossing_parity p pt v :
  Polygon2D_is_point_inside p pt v = Nat.odd (crossing_count p pt v).
Proof.
  unfold Polygon2D_is_point_inside, crossing_count, LineSegment2D_op_init. cbv zeta.
  set (ray := {| lr2p := pt; lr2v := v |}).
  pose proof (count_fold (fun s => does_intersection_exist_line2d_seg_ray s ray) (Polygon2D_segments p) 0) as C.
  change (Z.of_nat 0) with 0%Z in C. cbn [Nat.add] in C. rewrite C.
  unfold crosses. set (cnt := length (filter _ _)).
  rewrite <- Nat.negb_even.
  destruct (Nat.even cnt) eqn:Ev.
  - apply Nat.even_spec in Ev. destruct Ev as [k ->].
    replace (Z.of_nat (2 * k) mod 2)%Z with 0%Z by (rewrite Nat2Z.inj_mul, Z.mul_comm, Z.mod_mul; lia). reflexivity.
  - assert (Od : Nat.odd cnt = true) by (rewrite <- Nat.negb_even, Ev; reflexivity).
    apply Nat.odd_spec in Od. destruct Od as [k ->].
    replace (Z.of_nat (2 * k + 1) mod 2)%Z with 1%Z; [reflexivity|].
    rewrite Nat2Z.inj_add, Nat2Z.inj_mul. change (Z.of_nat 2) with 2%Z. change (Z.of_nat 1) with 1%Z.
    rewrite Z.add_comm, Z.mul_comm, Z.mod_add by lia. reflexivity.
Qed.

(* each crossing test: d <> 0 and the unique solution has 0 <= ua <= 1 on the segment, 0 <= ub on the ray *)
Theorem crossing_test_iff s ray :
  crosses ray s = true <-> exists pt, intersect_line2d_seg_ray s ray = Some pt.
Proof. unfold crosses. apply exists_iff_some_seg_ray. Qed.

Theorem crossing_test_geometric s ray : crosses ray s = true ->
  exists ua ub, in_seg ua /\ in_ray ub /\ on2 s ua =2= on2 ray ub.
Proof.
  intros H. apply crossing_test_iff in H. destruct H as [pt H].
  destruct (seg_ray_sound _ _ _ H) as (ua & ub & A & B & E1 & E2). exists ua, ub.
  split; [exact A|]. split; [exact B|]. transitivity pt; [symmetry; exact E1| exact E2].
Qed.

Theorem crossing_test_complete s ray ua ub : ~ det_lr s ray == 0 -> in_seg ua -> in_ray ub -> on2 s ua =2= on2 ray ub ->
  crosses ray s = true.
Proof.
  intros Hd A B E. apply crossing_test_iff.
  destruct (seg_ray_complete s ray ua ub Hd E A B) as (pt & H & _). exists pt. exact H.
Qed.

(* the bounding-rectangle variant: outside the box it answers false, inside it is the plain test *)
Theorem bound_rect_variant p pt v :
  Polygon2D_is_point_inside_bound_rect p pt v =
  if (Qlt_bool (v2x pt) (v2x (Base2DIn2D_min p)) || Qlt_bool (v2y pt) (v2y (Base2DIn2D_min p))
      || Qlt_bool (v2x (Base2DIn2D_max p)) (v2x pt) || Qlt_bool (v2y (Base2DIn2D_max p)) (v2y pt))
  then false else Polygon2D_is_point_inside p pt v.
Proof. reflexivity. Qed.

(* point_relationship: 0 on an edge, else +1 / -1 by the ray test *)
Theorem point_relationship_cases qsqrt p pt tol :
  Polygon2D_point_relationship qsqrt p pt tol =
  if Polygon2D_is_point_on_edge qsqrt p pt tol then 0%Z
  else if Polygon2D_is_point_inside_bound_rect_2 p pt then 1%Z else (-1)%Z.
Proof. reflexivity. Qed.

Lemma search_fold_existsb {A} (f : A -> bool) l :
  match fold_left (fun (acc_ : option bool) x => match acc_ with Some r_ => Some r_ | None => if f x then Some true else None end) l None
  with Some r_ => r_ | None => false end = existsb f l.
Proof.
  assert (G : forall l acc, fold_left (fun (acc_ : option bool) x => match acc_ with Some r_ => Some r_ | None => if f x then Some true else None end) l (Some acc) = Some acc).
  { induction l0 as [|x r IH]; intros acc; [reflexivity| apply IH]. }
  induction l as [|x r IH]; [reflexivity|]. cbn [fold_left existsb].
  destruct (f x); [rewrite G; reflexivity| exact IH].
Qed.

Theorem on_edge_iff_some_segment_within_tol qsqrt p pt tol :
  Polygon2D_is_point_on_edge qsqrt p pt tol =
  existsb (fun s => Qle_bool (Point2D_distance_to_point qsqrt pt (closest_point2d_on_line2d_seg pt s)) tol) (Polygon2D_segments p).
Proof. unfold Polygon2D_is_point_on_edge. apply (search_fold_existsb (fun s => Qle_bool _ tol)). Qed.
