(* C17: subdivide_evenly in exact arithmetic.  The generated while-loop (gen/G11_sub.v, fuel-bounded) returns exactly n+1 points,
   the k-th at parameter k/n, so the "tolerance issue with the last point" repair never fires and the last point is p2:
   the short results seen in floating point (FloatLoops.v) are purely a rounding effect. *)
From LBG Require Import Base QGeom ListCyc G0_vec G1_shapes G2_inter G3_poly G4_face G5_bound G6_tri G7_contain G8_curve G9_clean G10_grid G11_sub.
Open Scope Q_scope.

Fixpoint params (d : Q) (k : nat) (p : Q) : list Q :=
  match k with O => [] | S k' => p :: params d k' (p + d) end.
Fixpoint iter_add (d : Q) (k : nat) (p : Q) : Q :=
  match k with O => p | S k' => iter_add d k' (p + d) end.

Lemma iter_add_value d k p : iter_add d k p == p + inject_Z (Z.of_nat k) * d.
Proof.
  revert p. induction k as [|k IH]; intros p; [cbn; ring|]. cbn [iter_add]. rewrite IH, Nat2Z.inj_succ. unfold Z.succ.
  rewrite inject_Z_plus. ring.
Qed.

Lemma params_length d k p : length (params d k p) = k.
Proof. revert p. induction k as [|k IH]; intros p; [reflexivity| cbn; rewrite IH; reflexivity]. Qed.

Lemma params_nth d k : forall p j, (j < k)%nat -> nth j (params d k p) 0 == p + inject_Z (Z.of_nat j) * d.
Proof.
  induction k as [|k IH]; intros p j Hj; [lia|]. destruct j as [|j]; cbn [params nth]; [cbn; ring|].
  rewrite IH by lia. rewrite Nat2Z.inj_succ. unfold Z.succ. rewrite inject_Z_plus. ring.
Qed.

(* the counting loop: k iterations while the parameter stays <= 1, then it stops *)
Lemma count_loop {A} (f : Q -> A) d k : forall fuel (L : list A) p, (k < fuel)%nat ->
  (forall j, (j < k)%nat -> p + inject_Z (Z.of_nat j) * d <= 1) -> 1 < p + inject_Z (Z.of_nat k) * d ->
  py_while fuel (fun st_ : list A * Q => let '(sub_pts, parameter) := st_ in Qle_bool parameter 1)
                (fun st_ : list A * Q => let '(sub_pts, parameter) := st_ in (sub_pts ++ [f parameter], parameter + d)) (L, p)
  = (L ++ map f (params d k p), iter_add d k p).
Proof.
  induction k as [|k IH]; intros fuel L p Hf Hle Hgt.
  - destruct fuel as [|fuel]; [lia|]. cbn [py_while]. assert (E : Qle_bool p 1 = false).
    { apply Qle_bool_false_iff. change (inject_Z (Z.of_nat 0)) with 0 in Hgt. lra. }
    rewrite E. cbn. rewrite app_nil_r. reflexivity.
  - destruct fuel as [|fuel]; [lia|]. cbn [py_while]. assert (E : Qle_bool p 1 = true).
    { apply Qle_bool_iff. specialize (Hle 0%nat ltac:(lia)). change (inject_Z (Z.of_nat 0)) with 0 in Hle. lra. }
    rewrite E. rewrite IH.
    + cbn [params map iter_add]. rewrite <- app_assoc. reflexivity.
    + lia.
    + intros j Hj. specialize (Hle (S j) ltac:(lia)). rewrite Nat2Z.inj_succ in Hle. unfold Z.succ in Hle. rewrite inject_Z_plus in Hle.
      assert (X : p + d + inject_Z (Z.of_nat j) * d == p + (inject_Z (Z.of_nat j) + inject_Z 1) * d) by ring. rewrite X. exact Hle.
    + rewrite Nat2Z.inj_succ in Hgt. unfold Z.succ in Hgt. rewrite inject_Z_plus in Hgt.
      assert (X : p + d + inject_Z (Z.of_nat k) * d == p + (inject_Z (Z.of_nat k) + inject_Z 1) * d) by ring. rewrite X. exact Hgt.
Qed.

Lemma step_bounds n (N : (1 <= n)%Z) :
  let d := 1 / inject_Z n in
  (forall j, (j < Z.to_nat n)%nat -> d + inject_Z (Z.of_nat j) * d <= 1) /\ 1 < d + inject_Z (Z.of_nat (Z.to_nat n)) * d.
Proof.
  cbv zeta. assert (NQ : 0 < inject_Z n) by (change 0 with (inject_Z 0); rewrite <- Zlt_Qlt; lia).
  split.
  - intros j Hj. assert (E : 1 / inject_Z n + inject_Z (Z.of_nat j) * (1 / inject_Z n) == (inject_Z (Z.of_nat j) + 1) / inject_Z n) by (field; lra).
    rewrite E. apply Qle_shift_div_r; [exact NQ|]. rewrite Qmult_1_l.
    assert (Z1 : (Z.of_nat j + 1 <= n)%Z) by lia. rewrite Zle_Qle, inject_Z_plus in Z1. exact Z1.
  - rewrite Z2Nat.id by lia.
    assert (E : 1 / inject_Z n + inject_Z n * (1 / inject_Z n) == 1 + 1 / inject_Z n) by (field; lra). rewrite E.
    assert (0 < 1 / inject_Z n) by (apply Qlt_shift_div_l; lra). lra.
Qed.

Theorem seg2_subdivide_evenly_exact fuel self n : (1 <= n)%Z -> (Z.to_nat n < fuel)%nat ->
  let d := 1 / inject_Z n in
  LineSegment2D_subdivide_evenly fuel self n = lr2p self :: map (LineSegment2D_point_at self) (params d (Z.to_nat n) d).
Proof.
  intros N F d. unfold LineSegment2D_subdivide_evenly. cbv zeta. fold d.
  destruct (step_bounds n N) as [B1 B2]. fold d in B1, B2.
  rewrite (count_loop (LineSegment2D_point_at self) d (Z.to_nat n) fuel [lr2p self] d F B1 B2).
  cbn [app]. unfold py_len. cbn [length]. rewrite map_length, params_length.
  assert (E : (Z.of_nat (S (Z.to_nat n)) =? n + 1)%Z = true) by (apply Z.eqb_eq; lia). rewrite E. reflexivity.
Qed.

Theorem seg3_subdivide_evenly_exact fuel self n : (1 <= n)%Z -> (Z.to_nat n < fuel)%nat ->
  let d := 1 / inject_Z n in
  LineSegment3D_subdivide_evenly fuel self n = lr3p self :: map (LineSegment3D_point_at self) (params d (Z.to_nat n) d).
Proof.
  intros N F d. unfold LineSegment3D_subdivide_evenly. cbv zeta. fold d.
  destruct (step_bounds n N) as [B1 B2]. fold d in B1, B2.
  rewrite (count_loop (LineSegment3D_point_at self) d (Z.to_nat n) fuel [lr3p self] d F B1 B2).
  cbn [app]. unfold py_len. cbn [length]. rewrite map_length, params_length.
  assert (E : (Z.of_nat (S (Z.to_nat n)) =? n + 1)%Z = true) by (apply Z.eqb_eq; lia). rewrite E. reflexivity.
Qed.

(* n + 1 points, the k-th at parameter k/n, the last at parameter 1 *)
Theorem subdivide_params n : (1 <= n)%Z -> let d := 1 / inject_Z n in
  length (params d (Z.to_nat n) d) = Z.to_nat n /\
  forall j, (j < Z.to_nat n)%nat -> nth j (params d (Z.to_nat n) d) 0 == inject_Z (Z.of_nat (S j)) / inject_Z n.
Proof.
  intros N d. split; [apply params_length|]. intros j Hj. rewrite params_nth by exact Hj. unfold d.
  assert (NQ : 0 < inject_Z n) by (change 0 with (inject_Z 0); rewrite <- Zlt_Qlt; lia).
  rewrite Nat2Z.inj_succ. unfold Z.succ. rewrite inject_Z_plus. field. lra.
Qed.
