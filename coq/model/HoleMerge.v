(* HoleMerge.v -- hand model of Polygon2D._merge_boundary_and_hole: the hole loop, rotated to start at its vertex j, is spliced
   into the boundary in front of vertex i, with boundary vertex i and hole vertex j repeated to close the bridge.  Whatever pair
   (i, j) is chosen, the signed shoelace sum of the merged loop is the sum of the two loops' - so with opposite windings the merged
   loop has area |boundary| - |hole|. *)
From LBG Require Import Base QGeom ListCyc.
Open Scope Q_scope.

Definition rot {A} (j : nat) (l : list A) : list A := skipn j l ++ firstn j l.
Definition merge (b h : list V2) (i j : nat) (d : V2) : list V2 :=
  firstn i b ++ [nth i b d] ++ rot j h ++ [nth j h d] ++ skipn i b.

Definition sh2 (l : list V2) : Q := cyc_sum det2 l.

Section PS.
Context {A : Type}.
Variable f : A -> A -> Q.

Lemma path_sum_app (l1 l2 : list A) d : l1 <> [] -> l2 <> [] ->
  path_sum f (l1 ++ l2) == path_sum f l1 + f (last l1 d) (hd d l2) + path_sum f l2.
Proof.
  intros H1 H2. induction l1 as [|x r IH]; [congruence|]. destruct r as [|y r].
  - destruct l2 as [|z l2]; [congruence|]. cbn [app last hd]. rewrite path_sum_cons. cbn [path_sum]. ring.
  - change ((x :: y :: r) ++ l2) with (x :: (y :: r) ++ l2). change ((y :: r) ++ l2) with (y :: (r ++ l2)).
    rewrite path_sum_cons. change (y :: (r ++ l2)) with ((y :: r) ++ l2). rewrite IH by congruence.
    rewrite path_sum_cons. change (last (x :: y :: r) d) with (last (y :: r) d). ring.
Qed.

Lemma cyc_sum_rot (l : list A) : forall j, cyc_sum f (rot j l) == cyc_sum f l.
Proof.
  induction j as [|j IH].
  - unfold rot. cbn. rewrite app_nil_r. reflexivity.
  - destruct (le_lt_dec (length l) j) as [L|L].
    + unfold rot in *. rewrite !skipn_all2, !firstn_all2 in * by lia. reflexivity.
    + (* rot (S j) l is rot j l shifted by one *)
      rewrite <- IH. unfold rot.
      destruct (skipn j l) as [|x r] eqn:E.
      * exfalso. assert (length (skipn j l) = (length l - j)%nat) by apply skipn_length. rewrite E in H. cbn in H. lia.
      * assert (E1 : skipn (S j) l = r).
        { clear - E. revert l E. induction j as [|j IHj]; intros l E; [cbn in E; subst; reflexivity|].
          destruct l as [|a l]; [discriminate|]. cbn [skipn] in *. apply IHj. exact E. }
        assert (E2 : firstn (S j) l = firstn j l ++ [x]).
        { rewrite <- (firstn_skipn j l) at 1. rewrite E.
          rewrite firstn_app. rewrite firstn_length_le by lia. replace (S j - j)%nat with 1%nat by lia.
          rewrite firstn_all2 by (rewrite firstn_length_le; lia). reflexivity. }
        rewrite E1, E2. cbn [app]. rewrite cyc_sum_shift. rewrite <- app_assoc. reflexivity.
Qed.
End PS.

Lemma det2_antisym a b : det2 a b + det2 b a == 0.
Proof. unfold det2. ring. Qed.

Lemma rot_nonempty {A} j (l : list A) : l <> [] -> rot j l <> [].
Proof.
  intros H E. unfold rot in E. apply app_eq_nil in E. destruct E as [E1 E2].
  assert (L : (length (skipn j l) + length (firstn j l))%nat = length l).
  { rewrite <- (firstn_skipn j l) at 3. rewrite app_length. lia. }
  rewrite E1, E2 in L. cbn in L. destruct l; [congruence| cbn in L; lia].
Qed.

Lemma hd_rot (l : list V2) j d : (j < length l)%nat -> hd d (rot j l) = nth j l d.
Proof.
  intros H. unfold rot. destruct (skipn j l) as [|x r] eqn:E.
  - exfalso. assert (length (skipn j l) = (length l - j)%nat) by apply skipn_length. rewrite E in H0. cbn in H0. lia.
  - cbn [app hd]. rewrite <- (firstn_skipn j l) at 1. rewrite app_nth2 by (rewrite firstn_length_le; lia).
    rewrite firstn_length_le by lia. rewrite Nat.sub_diag, E. reflexivity.
Qed.

(* the merged loop rotated to start at the repeated boundary vertex *)
Lemma merge_rotated b h i j d : (i < length b)%nat -> 
  rot i (merge b h i j d) = [nth i b d] ++ rot j h ++ [nth j h d] ++ rot i b.
Proof.
  intros H. unfold merge, rot at 1.
  assert (L : length (firstn i b) = i) by (apply firstn_length_le; lia).
  rewrite skipn_app, firstn_app. rewrite L, Nat.sub_diag. cbn [skipn firstn].
  rewrite skipn_all2 by lia. rewrite (firstn_all2 (firstn i b)) by lia. cbn [app].
  rewrite app_nil_r. unfold rot. rewrite <- !app_assoc. cbn [app]. reflexivity.
Qed.

Lemma bridge_sum (bi hj : V2) (Hr Br : list V2) :
  cyc_sum det2 ([bi] ++ (hj :: Hr) ++ [hj] ++ (bi :: Br)) == cyc_sum det2 (bi :: Br) + cyc_sum det2 (hj :: Hr).
Proof.
  assert (R : [bi] ++ (hj :: Hr) ++ [hj] ++ (bi :: Br) = ([bi] ++ (hj :: Hr)) ++ ([hj] ++ (bi :: Br))) by (rewrite <- app_assoc; reflexivity).
  rewrite R. clear R.
  remember ([bi] ++ (hj :: Hr)) as L1 eqn:E1. remember ([hj] ++ (bi :: Br)) as L2 eqn:E2.
  assert (N1 : L1 <> []) by (subst; discriminate). assert (N2 : L2 <> []) by (subst; discriminate).
  assert (C : cyc_sum det2 (L1 ++ L2) == det2 (last L2 bi) bi + path_sum det2 (L1 ++ L2)).
  { subst L1. cbn [app]. unfold cyc_sum. change (bi :: hj :: Hr ++ L2) with ((bi :: hj :: Hr) ++ L2).
    rewrite (last_app_ne (bi :: hj :: Hr) L2 bi N2). reflexivity. }
  rewrite C. rewrite (path_sum_app det2 L1 L2 bi N1 N2). subst L1 L2.
  rewrite (path_sum_app det2 [bi] (hj :: Hr) bi) by congruence.
  rewrite (path_sum_app det2 [hj] (bi :: Br) bi) by congruence.
  cbn [hd app]. change (path_sum det2 [bi]) with 0. change (path_sum det2 [hj]) with 0.
  change (last [bi] bi) with bi. change (last [hj] bi) with hj.
  change (last (bi :: hj :: Hr) bi) with (last (hj :: Hr) bi). rewrite (last_indep (hj :: Hr) bi hj) by congruence.
  change (last (hj :: bi :: Br) bi) with (last (bi :: Br) bi).
  unfold cyc_sum. pose proof (det2_antisym bi hj). lra.
Qed.

Theorem merge_conserves_signed_area b h i j d : (i < length b)%nat -> (j < length h)%nat ->
  sh2 (merge b h i j d) == sh2 b + sh2 h.
Proof.
  intros Hi Hj. unfold sh2.
  rewrite <- (cyc_sum_rot det2 (merge b h i j d) i). rewrite (merge_rotated b h i j d Hi).
  rewrite <- (cyc_sum_rot det2 b i), <- (cyc_sum_rot det2 h j).
  assert (Bne : rot i b <> []) by (apply rot_nonempty; destruct b; [cbn in Hi; lia| congruence]).
  assert (Hne : rot j h <> []) by (apply rot_nonempty; destruct h; [cbn in Hj; lia| congruence]).
  pose proof (hd_rot b i d Hi) as HB. pose proof (hd_rot h j d Hj) as HH.
  destruct (rot i b) as [|b0 Br] eqn:EB; [congruence|]. destruct (rot j h) as [|h0 Hr] eqn:EH; [congruence|].
  cbn [hd] in HB, HH. subst b0 h0. apply bridge_sum.
Qed.

(* several holes, merged one after the other (each bridge index refers to the loop merged so far) *)
Definition step (d : V2) (b : list V2) (x : list V2 * nat * nat) : list V2 :=
  let '(h, i, j) := x in merge b h i j d.

Fixpoint valid (b : list V2) (d : V2) (xs : list (list V2 * nat * nat)) : Prop :=
  match xs with
  | [] => True
  | (h, i, j) :: r => (i < length b)%nat /\ (j < length h)%nat /\ valid (merge b h i j d) d r
  end.

Theorem merge_all_conserves_signed_area d xs : forall b, valid b d xs ->
  sh2 (fold_left (step d) xs b) == sh2 b + fold_right Qplus 0 (map (fun x => sh2 (fst (fst x))) xs).
Proof.
  induction xs as [|[[h i] j] r IH]; intros b V; cbn [fold_left map fold_right fst].
  - ring.
  - destruct V as (Hi & Hj & Vr). unfold step at 2. rewrite (IH _ Vr). rewrite (merge_conserves_signed_area b h i j d Hi Hj). ring.
Qed.
