(* C10_rotxy.v -- the oriented bounding routines turn every member by -axis_angle about the vertical before taking its box: the
   direction vectors of segments, rays, cone / cylinder axes and plane normals go through Vector3D.rotate_xy (generated), which keeps
   the vertical component and the length, and turns the horizontal part by the angle. *)
From LBG Require Import Base QGeom G0_vec.
Open Scope Q_scope.

Theorem rotate_xy_keeps_the_vertical_component qcos qsin v a : v3z (Vector3D_rotate_xy qcos qsin v a) = v3z v.
Proof. reflexivity. Qed.

Theorem rotate_xy_turns_the_horizontal_part qcos qsin v a :
  v3x (Vector3D_rotate_xy qcos qsin v a) == qcos a * v3x v - qsin a * v3y v /\
  v3y (Vector3D_rotate_xy qcos qsin v a) == qsin a * v3x v + qcos a * v3y v.
Proof. unfold Vector3D_rotate_xy, Vector2D__rotate_2. cbn [v3x v3y v3z v2x v2y]. split; ring. Qed.

Theorem rotate_xy_keeps_the_length qcos qsin v a : qcos a * qcos a + qsin a * qsin a == 1 ->
  dot3 (Vector3D_rotate_xy qcos qsin v a) (Vector3D_rotate_xy qcos qsin v a) == dot3 v v.
Proof.
  intros H. unfold Vector3D_rotate_xy, Vector2D__rotate_2, dot3. cbn [v3x v3y v3z v2x v2y].
  transitivity ((qcos a * qcos a + qsin a * qsin a) * (v3x v * v3x v + v3y v * v3y v) + v3z v * v3z v); [ring|]. rewrite H. ring.
Qed.
