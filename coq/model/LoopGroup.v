(* LoopGroup.v -- hand model of the loop classification of Face3D._from_bool_poly: the result loops of a boolean operation, sorted
   by area (largest first, here: numbered 0, 1, 2, ...), are grouped into faces = (outer loop :: holes): a loop becomes a hole of the
   first group whose outer loop contains it unless one of that group's holes contains it too (then it is an island), otherwise
   a face of its own.  `inside a b` = loop b lies inside loop a. *)
From Coq Require Import List Bool Arith Lia.
Import ListNotations.

Section LG.
Variable inside : nat -> nat -> bool.

Definition accepts (g : list nat) (x : nat) : bool :=
  match g with [] => false | o :: hs => inside o x && negb (existsb (fun h => inside h x) hs) end.

Fixpoint place (groups : list (list nat)) (x : nat) : list (list nat) :=
  match groups with
  | [] => [[x]]
  | g :: r => if accepts g x then (g ++ [x]) :: r else g :: place r x
  end.

Definition classify (n : nat) : list (list nat) :=
  match n with O => [] | S m => fold_left place (seq 1 m) [[0]] end.

Lemma place_none G x : (forall g, In g G -> accepts g x = false) -> place G x = G ++ [[x]].
Proof.
  induction G as [|g r IH]; intros H; [reflexivity|]. cbn [place]. rewrite (H g (or_introl eq_refl)).
  rewrite IH; [reflexivity| intros g' Hg'; apply H; right; exact Hg'].
Qed.

Lemma place_some G1 g G2 x : (forall g', In g' G1 -> accepts g' x = false) -> accepts g x = true ->
  place (G1 ++ g :: G2) x = G1 ++ (g ++ [x]) :: G2.
Proof.
  induction G1 as [|a r IH]; intros H Hg; cbn [app place]; [rewrite Hg; reflexivity|].
  rewrite (H a (or_introl eq_refl)). rewrite IH; [reflexivity| intros g' Hg'; apply H; right; exact Hg'| exact Hg].
Qed.

(* ---------------------------------------------------------------- counting *)
Definition count (P : nat -> bool) (n : nat) : nat := length (filter P (seq 0 n)).

Lemma count_S P n : count P (S n) = count P n + (if P n then 1 else 0).
Proof. unfold count. rewrite seq_S, filter_app, app_length. cbn. destruct (P n); reflexivity. Qed.

Lemma count_ext P Q n : (forall c, c < n -> P c = Q c) -> count P n = count Q n.
Proof.
  induction n as [|n IH]; intros H; [reflexivity|]. rewrite !count_S, IH by (intros; apply H; lia). rewrite (H n) by lia. reflexivity.
Qed.

Lemma count_zero P n : (forall c, c < n -> P c = false) <-> count P n = 0.
Proof.
  induction n as [|n IH]; [split; [reflexivity| intros _ c Hc; lia]|]. rewrite count_S. split.
  - intros H. rewrite (H n) by lia. destruct IH as [IH _]. rewrite IH; [reflexivity| intros; apply H; lia].
  - intros H c Hc. destruct (P n) eqn:E; [lia|]. destruct (Nat.eq_dec c n) as [->|N]; [exact E|]. apply IH; lia.
Qed.

Lemma count_lt P a n : a <= n -> count (fun c => P c && (c <? a)) n = count P a.
Proof.
  induction n as [|n IH]; intros H.
  - assert (a = 0) by lia. subst. reflexivity.
  - destruct (Nat.eq_dec a (S n)) as [->|N].
    + apply count_ext. intros c Hc. assert (E : (c <? S n) = true) by (apply Nat.ltb_lt; exact Hc). rewrite E, andb_true_r. reflexivity.
    + rewrite count_S, IH by lia. assert (E : (n <? a) = false) by (apply Nat.ltb_ge; lia). rewrite E, andb_false_r. lia.
Qed.

Lemma count_split3 P a n : a < n -> P a = true ->
  count P n = count (fun c => P c && (c <? a)) n + 1 + count (fun c => P c && (a <? c)) n.
Proof.
  intros Ha Pa. induction n as [|n IH]; [lia|]. rewrite !count_S. destruct (Nat.eq_dec a n) as [->|N].
  - rewrite Pa. assert (E1 : (n <? n) = false) by apply Nat.ltb_irrefl. rewrite E1, andb_false_r.
    assert (X : count (fun c => P c && (n <? c)) n = 0).
    { apply count_zero. intros c Hc. assert (E : (n <? c) = false) by (apply Nat.ltb_ge; lia). rewrite E, andb_false_r. reflexivity. }
    assert (Y : count (fun c => P c && (c <? n)) n = count P n).
    { apply count_ext. intros c Hc. assert (E : (c <? n) = true) by (apply Nat.ltb_lt; exact Hc). rewrite E, andb_true_r. reflexivity. }
    rewrite X, Y. lia.
  - rewrite IH by lia. assert (E1 : (n <? a) = false) by (apply Nat.ltb_ge; lia). assert (E2 : (a <? n) = true) by (apply Nat.ltb_lt; lia).
    rewrite E1, E2, andb_false_r, andb_true_r. destruct (P n); lia.
Qed.

(* ---------------------------------------------------------------- the nesting order *)
Hypothesis sorted_ : forall a b, inside a b = true -> a < b.
Hypothesis trans_ : forall a b c, inside a b = true -> inside b c = true -> inside a c = true.
Hypothesis laminar_ : forall a b x, inside a x = true -> inside b x = true -> a < b -> inside a b = true.

Definition depth (x : nat) : nat := count (fun a => inside a x) x.

Lemma depth_anc a x : inside a x = true -> depth a = count (fun c => inside c x && (c <? a)) x.
Proof.
  intros H. pose proof (sorted_ _ _ H) as L. unfold depth.
  rewrite <- (count_lt (fun c => inside c a) a x) by lia. apply count_ext. intros c Hc.
  destruct (c <? a) eqn:E; rewrite ?andb_false_r; [|reflexivity]. rewrite !andb_true_r. apply Nat.ltb_lt in E.
  destruct (inside c a) eqn:E1.
  - symmetry. eapply trans_; eauto.
  - destruct (inside c x) eqn:E2; [|reflexivity]. rewrite (laminar_ c a x E2 H E) in E1. discriminate.
Qed.

Lemma depth_step a x : inside a x = true -> depth x = depth a + 1 + count (fun c => inside c x && (a <? c)) x.
Proof.
  intros H. pose proof (sorted_ _ _ H) as L. unfold depth at 1.
  rewrite (count_split3 (fun c => inside c x) a x L H). rewrite <- (depth_anc a x H). reflexivity.
Qed.

(* parent = the largest (innermost) loop containing x *)
Definition is_parent (p x : nat) : Prop := inside p x = true /\ forall e, inside e x = true -> e <= p.

Lemma parent_depth p x : is_parent p x -> depth x = depth p + 1.
Proof.
  intros [H M]. rewrite (depth_step p x H). assert (Z : count (fun c => inside c x && (p <? c)) x = 0).
  { apply count_zero. intros c Hc. destruct (inside c x) eqn:E; [|reflexivity]. specialize (M c E).
    assert (E2 : (p <? c) = false) by (apply Nat.ltb_ge; exact M). rewrite E2. reflexivity. }
  lia.
Qed.

Lemma parent_unique p q x : is_parent p x -> is_parent q x -> p = q.
Proof. intros [H1 M1] [H2 M2]. specialize (M1 q H2). specialize (M2 p H1). lia. Qed.

Lemma parent_exists x : 0 < depth x -> exists p, is_parent p x.
Proof.
  unfold depth. assert (G : forall n, 0 < count (fun a => inside a x) n -> exists p, p < n /\ inside p x = true /\ forall e, e < n -> inside e x = true -> e <= p).
  { induction n as [|n IH]; [cbn; lia|]. rewrite count_S. destruct (inside n x) eqn:E.
    - intros _. exists n. repeat split; [lia| exact E| intros; lia].
    - intros H. destruct IH as (p & Hp & Ip & Mp); [lia|]. exists p. repeat split; [lia| exact Ip|].
      intros e He Ie. destruct (Nat.eq_dec e n) as [->|N]; [congruence| apply Mp; [lia| exact Ie]]. }
  intros H. destruct (G x H) as (p & Hp & Ip & Mp). exists p. split; [exact Ip|]. intros e Ie. apply Mp; [apply sorted_; exact Ie| exact Ie].
Qed.

Lemma find_seq f : forall n s, match find f (seq s n) with
  | Some c => s <= c < s + n /\ f c = true /\ forall e, s <= e < c -> f e = false
  | None => forall e, s <= e < s + n -> f e = false end.
Proof.
  induction n as [|n IH]; intros s; cbn [seq find]; [intros e He; lia|].
  destruct (f s) eqn:E; [repeat split; [lia| lia| exact E| intros e He; lia]|].
  specialize (IH (S s)). destruct (find f (seq (S s) n)) as [c|].
  - destruct IH as (A & B & C). repeat split; [lia| lia| exact B|]. intros e He. destruct (Nat.eq_dec e s) as [->|N]; [exact E| apply C; lia].
  - intros e He. destruct (Nat.eq_dec e s) as [->|N]; [exact E| apply IH; lia].
Qed.

(* the next loop on the chain from o down to x *)
Lemma chain_cases o x : inside o x = true -> is_parent o x \/ exists c, inside c x = true /\ is_parent o c.
Proof.
  intros H. pose proof (find_seq (fun c => inside c x && (o <? c)) x 0) as F.
  destruct (find (fun c => inside c x && (o <? c)) (seq 0 x)) as [c|].
  - right. destruct F as (R & Fc & Min). apply andb_true_iff in Fc. destruct Fc as [Ic Oc]. apply Nat.ltb_lt in Oc.
    exists c. split; [exact Ic|]. split; [apply (laminar_ o c x H Ic Oc)|].
    intros e Ie. pose proof (sorted_ _ _ Ie) as Le. pose proof (trans_ _ _ _ Ie Ic) as Iex.
    destruct (le_lt_dec e o) as [L|L]; [exact L|]. exfalso.
    assert (X : inside e x && (o <? e) = false) by (apply Min; lia).
    rewrite Iex in X. assert (Y : (o <? e) = true) by (apply Nat.ltb_lt; exact L). rewrite Y in X. discriminate.
  - left. split; [exact H|]. intros e Ie. pose proof (sorted_ _ _ Ie) as Le.
    destruct (le_lt_dec e o) as [L|L]; [exact L|]. exfalso.
    assert (X : inside e x && (o <? e) = false) by (apply F; lia).
    rewrite Ie in X. assert (Y : (o <? e) = true) by (apply Nat.ltb_lt; exact L). rewrite Y in X. discriminate.
Qed.

(* ---------------------------------------------------------------- when does a face accept a loop *)
(* a well-formed face: the outer loop o has even depth and its holes are exactly the already placed loops whose parent is o *)
Definition face_ok (k : nat) (g : list nat) : Prop :=
  match g with
  | [] => False
  | o :: hs => o < k /\ Nat.even (depth o) = true /\ forall h, In h hs <-> (h < k /\ is_parent o h)
  end.

Lemma accepts_iff k o hs : face_ok k (o :: hs) -> accepts (o :: hs) k = true <-> is_parent o k.
Proof.
  intros (Ho & Ev & Hh). unfold accepts. rewrite andb_true_iff, negb_true_iff. split.
  - intros [I NE]. destruct (chain_cases o k I) as [P|(c & Ic & Pc)]; [exact P|]. exfalso.
    assert (In c hs) by (apply Hh; split; [apply sorted_; exact Ic| exact Pc]).
    assert (existsb (fun h => inside h k) hs = true) by (apply existsb_exists; exists c; split; assumption). congruence.
  - intros P. split; [apply P|]. destruct (existsb (fun h => inside h k) hs) eqn:E; [|reflexivity]. exfalso.
    apply existsb_exists in E. destruct E as (h & Hin & Ih). apply Hh in Hin. destruct Hin as [_ Ph].
    pose proof (parent_depth _ _ Ph) as D1. pose proof (parent_depth _ _ P) as D2.
    pose proof (depth_step h k Ih) as D3. lia.
Qed.

Lemma first_accepting G x : (forall g, In g G -> accepts g x = false) \/
  exists G1 g G2, G = G1 ++ g :: G2 /\ (forall g', In g' G1 -> accepts g' x = false) /\ accepts g x = true.
Proof.
  induction G as [|a r IH]; [left; intros g []|]. destruct (accepts a x) eqn:E.
  - right. exists [], a, r. repeat split; [intros g' []| exact E].
  - destruct IH as [N|(G1 & g & G2 & -> & N & A)].
    + left. intros g [<-|Hg]; [exact E| apply N; exact Hg].
    + right. exists (a :: G1), g, G2. repeat split; [|exact A]. intros g' [<-|Hg']; [exact E| apply N; exact Hg'].
Qed.

Record Inv (k : nat) (G : list (list nat)) : Prop := {
  inv_faces : forall g, In g G -> face_ok k g;
  inv_heads : forall x, x < k -> Nat.even (depth x) = true -> exists hs, In (x :: hs) G;
  inv_unique : NoDup (map (hd 0) G)
}.

Lemma even_succ_false d : Nat.even d = true -> Nat.even (d + 1) = false.
Proof. intros H. rewrite Nat.add_1_r, Nat.even_succ, <- Nat.negb_even, H. reflexivity. Qed.

Lemma odd_has_even_parent x : Nat.even (depth x) = false -> exists p, is_parent p x /\ Nat.even (depth p) = true.
Proof.
  intros H. assert (P : 0 < depth x) by (destruct (depth x); [discriminate| lia]).
  destruct (parent_exists x P) as (p & Pp). exists p. split; [exact Pp|]. pose proof (parent_depth _ _ Pp) as D.
  rewrite D, Nat.add_1_r, Nat.even_succ, <- Nat.negb_even in H. destruct (Nat.even (depth p)); [reflexivity| discriminate].
Qed.

Lemma face_ok_grow k g : face_ok k g -> (forall o hs, g = o :: hs -> ~ is_parent o k) -> face_ok (S k) g.
Proof.
  destruct g as [|o hs]; [auto|]. intros (A1 & A2 & A3) NP. specialize (NP o hs eq_refl).
  split; [lia|]. split; [exact A2|]. intros h. split.
  - intros Hh. destruct (proj1 (A3 h) Hh) as [B1 B2]. split; [lia| exact B2].
  - intros [B1 B2]. destruct (Nat.eq_dec h k) as [->|Nk]; [contradiction| apply A3; split; [lia| exact B2]].
Qed.

Lemma face_ok_add k o hs : face_ok k (o :: hs) -> is_parent o k -> face_ok (S k) (o :: hs ++ [k]).
Proof.
  intros (A1 & A2 & A3) P. split; [lia|]. split; [exact A2|]. intros h. split.
  - intros Hh. apply in_app_or in Hh. destruct Hh as [Hh|[<-|[]]].
    + destruct (proj1 (A3 h) Hh) as [C1 C2]. split; [lia| exact C2].
    + split; [lia| exact P].
  - intros [C1 C2]. apply in_or_app. destruct (Nat.eq_dec h k) as [->|Nk]; [right; left; reflexivity| left; apply A3; split; [lia| exact C2]].
Qed.

Lemma NoDup_snoc {A} (l : list A) x : NoDup l -> ~ In x l -> NoDup (l ++ [x]).
Proof.
  induction l as [|a r IH]; intros N H; cbn [app]; [constructor; [intros []| constructor]|].
  inversion N as [|? ? Ha Nr]; subst. constructor.
  - intros Hin. apply in_app_or in Hin. destruct Hin as [Hin|[<-|[]]]; [contradiction| apply H; left; reflexivity].
  - apply IH; [exact Nr| intros Hx; apply H; right; exact Hx].
Qed.

Lemma inv_step k G : Inv k G -> Inv (S k) (place G k).
Proof.
  intros [F H U]. destruct (first_accepting G k) as [N|(G1 & g & G2 & -> & N & A)].
  - (* a face of its own: its depth is even *)
    rewrite (place_none G k N).
    assert (NA : forall o hs, In (o :: hs) G -> ~ is_parent o k).
    { intros o hs Hin P. pose proof (F _ Hin) as Fo. assert (X : accepts (o :: hs) k = true) by (apply (accepts_iff k o hs Fo); exact P).
      rewrite (N _ Hin) in X. discriminate. }
    assert (Ev : Nat.even (depth k) = true).
    { destruct (Nat.even (depth k)) eqn:E; [reflexivity|]. exfalso. destruct (odd_has_even_parent k E) as (p & Pp & Ep).
      destruct (H p (sorted_ _ _ (proj1 Pp)) Ep) as (hs & Hin). exact (NA p hs Hin Pp). }
    split.
    + intros g' Hg'. apply in_app_or in Hg'. destruct Hg' as [Hg'|[<-|[]]].
      * apply face_ok_grow; [apply F; exact Hg'|]. intros o hs ->. eapply NA; eauto.
      * split; [lia|]. split; [exact Ev|]. intros h. split; [intros []|]. intros [B1 [B2 _]]. apply sorted_ in B2. lia.
    + intros x Hx Ex. destruct (Nat.eq_dec x k) as [->|Nk].
      * exists []. apply in_or_app. right. left. reflexivity.
      * destruct (H x ltac:(lia) Ex) as (hs & Hin). exists hs. apply in_or_app. left. exact Hin.
    + rewrite map_app. cbn [map hd]. apply NoDup_snoc; [exact U|]. intros Hin. apply in_map_iff in Hin. destruct Hin as (g' & E & Hg').
      pose proof (F _ Hg') as Fo. destruct g' as [|o hs]; [exact Fo|]. cbn in E. subst o. destruct Fo as (A1 & _). lia.
  - (* a hole of the first accepting face *)
    rewrite (place_some G1 g G2 k N A).
    assert (Hg : In g (G1 ++ g :: G2)) by (apply in_or_app; right; left; reflexivity).
    pose proof (F _ Hg) as Fo. destruct g as [|o hs]; [destruct Fo|].
    assert (P : is_parent o k) by (apply (accepts_iff k o hs Fo); exact A).
    assert (Uo : forall hs', In (o :: hs') (G1 ++ G2) -> False).
    { intros hs' Hin. rewrite map_app in U. cbn [map hd] in U. apply NoDup_remove_2 in U. apply U.
      apply in_app_or in Hin. apply in_or_app. destruct Hin as [Hin|Hin]; [left|right]; apply in_map_iff; exists (o :: hs'); split; auto. }
    assert (Other : forall g', In g' (G1 ++ G2) -> face_ok (S k) g').
    { intros g' Hg'. apply face_ok_grow.
      - apply F. apply in_app_or in Hg'. apply in_or_app. destruct Hg' as [X|X]; [left; exact X| right; right; exact X].
      - intros o' hs' -> P'. assert (o' = o) by (eapply parent_unique; eauto). subst o'. exact (Uo hs' Hg'). }
    split.
    + intros g' Hg'. apply in_app_or in Hg'. destruct Hg' as [Hg'|[<-|Hg']].
      * apply Other. apply in_or_app. left. exact Hg'.
      * cbn [app]. apply face_ok_add; assumption.
      * apply Other. apply in_or_app. right. exact Hg'.
    + intros x Hx Ex. destruct (Nat.eq_dec x k) as [->|Nk].
      * exfalso. destruct Fo as (_ & A2 & _). rewrite (parent_depth _ _ P) in Ex. rewrite (even_succ_false _ A2) in Ex. discriminate.
      * destruct (H x ltac:(lia) Ex) as (hs0 & Hin). apply in_app_or in Hin. destruct Hin as [Hin|[E|Hin]].
        -- exists hs0. apply in_or_app. left. exact Hin.
        -- injection E as <- <-. exists (hs ++ [k]). apply in_or_app. right. left. reflexivity.
        -- exists hs0. apply in_or_app. right. right. exact Hin.
    + rewrite map_app in *. cbn [map hd app] in *. exact U.
Qed.

Lemma inv_fold m : forall k G, Inv k G -> Inv (k + m) (fold_left place (seq k m) G).
Proof.
  induction m as [|m IH]; intros k G I; [rewrite Nat.add_0_r; exact I|]. cbn [seq fold_left].
  replace (k + S m) with (S k + m) by lia. apply IH. apply inv_step. exact I.
Qed.

Lemma inv_init : Inv 1 [[0]].
Proof.
  split.
  - intros g [<-|[]]. split; [lia|]. split; [reflexivity|]. intros h. split; [intros []|]. intros [B1 [B2 _]]. apply sorted_ in B2. lia.
  - intros x Hx _. assert (x = 0) by lia. subst. exists []. left. reflexivity.
  - cbn. constructor; [intros []| constructor].
Qed.

(* the classification realises the even-odd reading of the nesting: the faces are exactly the loops of even depth, and the holes of
   a face are exactly the loops whose innermost enclosing loop is the face's outer loop (hence of odd depth) *)
Theorem classify_is_even_odd n : 1 <= n -> Inv n (classify n).
Proof.
  intros H. destruct n as [|m]; [lia|]. unfold classify. replace (S m) with (1 + m) by lia. apply inv_fold. apply inv_init.
Qed.
End LG.
