"""C02  move/rotate/reflect/scale act as the stated map on every geometry type.

correspond(): the generated Coq kernels (gen/G0_vec.v, G1_shapes.v) evaluated with
vm_compute against the implementation on the same inputs (validates the translator).
explore(): every class x transform against an independent exact-rational
Rodrigues/Householder reference (searches the implementation for violations)."""
import math
from fractions import Fraction
from .. import core, gens as G, exact as X, build as Bd
from ..core import q, v2, v3, F
from ..build import P2, V2, P3, V3
from ladybug_geometry.geometry2d import Vector2D, Point2D
from ladybug_geometry.geometry3d import Vector3D, Point3D, Face3D

RULE = ('classes x {move,rotate,rotate_xy,reflect,scale} x random parameters (angle in [-4pi,4pi], k in [0.05,20], '
        'unit mirror normals); non-trivial = object not degenerate and parameter not the identity; distinct by '
        '(class, op, parameter bucket)')
ASSUMPTIONS = ['math.cos/math.sin of the implementation are passed to the model as exact rationals of the same floats',
               'reference maps use Fraction arithmetic with the float cos/sin and a float sqrt for the axis length']
TRUSTED = ['qsqrt/qcos/qsin are explicit function parameters of the generated kernels; theorems assume only '
           'cos^2+sin^2==1 and qsqrt(x)^2==x at the arguments used']

TOL = 1e-9
_LOOSE = 1.0


# ------------------------------------------------------------------ features
def feats(o):
    """(points, vectors, lengths, areas, volumes, invariants) describing the point set of o"""
    n = type(o).__name__
    pts, vecs, lens, areas, vols, inv = [], [], [], [], [], []
    if n in ('Vector2D', 'Vector3D'):
        vecs = [o]
    elif n in ('Point2D', 'Point3D'):
        pts = [o]
    elif n in ('Ray2D', 'Ray3D'):
        pts = [o.p]; vecs = [o.v]
    elif n in ('LineSegment2D', 'LineSegment3D'):
        pts = [o.p1, o.p2, o.midpoint, o.point_at(0.25)]; vecs = [o.v]; lens = [o.length]
    elif n in ('Arc2D', 'Arc3D'):
        # a full circle has no distinguished start: only its centre/radius describe the point set
        pts = [o.c] if o.is_circle else [o.c, o.midpoint]
        lens = [o.length, o.radius if n == 'Arc3D' else o.r]
        inv = [o.angle]
    elif n in ('Polyline2D', 'Polyline3D'):
        pts = list(o.vertices); lens = [o.length]; inv = [o.interpolated]
    elif n == 'Polygon2D':
        pts = list(o.vertices); lens = [o.perimeter]; areas = [o.area]; inv = [o.is_convex]
    elif n in ('Mesh2D', 'Mesh3D'):
        pts = list(o.vertices); areas = [o.area] + list(o.face_areas) if not isinstance(o.face_areas, (int, float)) else [o.area]
        inv = [tuple(len(f) for f in o.faces)]
    elif n == 'Plane':
        pts = [o.o]
    elif n == 'Face3D':
        pts = list(o.boundary) + [p for h in (o.holes or ()) for p in h]
        lens = [o.perimeter]; areas = [o.area]; inv = [len(o.holes or ())]
    elif n == 'Polyface3D':
        pts = list(o.vertices); areas = [o.area]; vols = [o.volume]; inv = [o.is_solid, len(o.faces)]
    elif n == 'Sphere':
        pts = [o.center]; lens = [o.radius, o.diameter]; areas = [o.area]; vols = [o.volume]
    elif n == 'Cone':
        pts = [o.vertex]; vecs = [o.axis]; lens = [o.height, o.radius]; inv = [o.angle]; vols = [o.volume]
    elif n == 'Cylinder':
        pts = [o.center]; vecs = [o.axis]; lens = [o.radius, o.height]; vols = [o.volume]; areas = [o.area]
    return pts, vecs, lens, areas, vols, inv


def unit_dirs(o):
    """vectors that must stay unit and follow the linear part (normals etc.)"""
    n = type(o).__name__
    if n == 'Plane':
        return [('n', o.n), ('x', o.x), ('y', o.y)]
    if n == 'Face3D':
        return [('normal', o.normal)]
    if n == 'Arc3D':
        return [('plane.n', o.plane.n)]
    return []


def gen_args(rng, op, is3d):
    """random arguments for the transform (ladybug objects / floats) and a bucket key"""
    if op == 'move':
        m = G.rvec3(rng, 1000.0) if is3d else G.rvec2(rng, 1000.0)
        return [V3(m) if is3d else V2(m)], ('move', 0)
    if op in ('rotate', 'rotate_xy'):
        ang = rng.uniform(-4 * math.pi, 4 * math.pi)
        if rng.random() < 0.2:
            ang = rng.choice([math.pi / 2, -math.pi / 2, math.pi, 2 * math.pi, -3 * math.pi, 0.0])
        bucket = int(ang // (math.pi / 2))
        if not is3d:
            return [ang, P2(G.rpt2(rng, 1000.0))], (op, bucket)
        o = P3(G.rpt3(rng, 1000.0))
        if op == 'rotate_xy':
            return [ang, o], (op, bucket)
        axis = G.rvec3(rng, 10.0)
        if rng.random() < 0.2:
            axis = rng.choice([(0.0, 0.0, 1.0), (0.0, 0.0, -2.0), (1.0, 0.0, 0.0), (0.0, 3.0, 0.0)])
        return [V3(axis), ang, o], (op, bucket)
    if op == 'reflect':
        if is3d:
            fr = G.rational_frame(rng)
            nrm = fr[rng.randrange(3)]
            return [V3(nrm), P3(G.rpt3(rng, 1000.0))], (op, tuple(round(c, 2) for c in nrm))
        c, s, _ = G.pythagorean_angle(rng)
        return [V2((float(c), float(s))), P2(G.rpt2(rng, 1000.0))], (op, (float(c), float(s)))
    if op == 'scale':
        k = math.exp(rng.uniform(math.log(0.05), math.log(20)))
        k = G.dy(k, 12) or 0.5
        if rng.random() < 0.3:
            return [k], (op, round(math.log(k)))
        o = G.rpt3(rng, 1000.0) if is3d else G.rpt2(rng, 1000.0)
        return [k, P3(o) if is3d else P2(o)], (op, round(math.log(k)))
    raise KeyError(op)


def ref_maps(op, args, is3d, isvec):
    """independent exact-rational reference (point map, vector map, k, inverse args) for the given arguments"""
    zero = (Fraction(0),) * (3 if is3d else 2)
    if op == 'move':
        fm = X.fpt(args[0])
        return (lambda p: X.add(p, fm)), (lambda v: v), 1, [args[0] * -1]
    if op in ('rotate', 'rotate_xy'):
        if not is3d:
            ang = args[0]
            fo = zero if isvec else X.fpt(args[1])
            c, s = F(math.cos(ang)), F(math.sin(ang))
            return (lambda p: X.add(X.rot2(X.sub(p, fo), c, s), fo)), (lambda v: X.rot2(v, c, s)), 1, [-ang] + list(args[1:])
        if op == 'rotate_xy':
            ang = args[0]
            fo = zero if isvec else X.fpt(args[1])
            fa = (Fraction(0), Fraction(0), Fraction(1))
            inv = [-ang] + list(args[1:])
        else:
            fa, ang = X.fpt(args[0]), args[1]
            fo = zero if isvec else X.fpt(args[2])
            inv = [args[0], -ang] + list(args[2:])
        c, s = F(math.cos(ang)), F(math.sin(ang))
        return (lambda p: X.add(X.rodrigues(X.sub(p, fo), fa, c, s), fo)), (lambda v: X.rodrigues(v, fa, c, s)), 1, inv
    if op == 'reflect':
        fn = X.fpt(args[0])
        fo = zero if isvec else X.fpt(args[1])
        return (lambda p: X.add(X.householder(X.sub(p, fo), fn), fo)), (lambda v: X.householder(v, fn)), 1, list(args)
    if op == 'scale':
        fk = F(args[0])
        fo = X.fpt(args[1]) if len(args) > 1 else zero
        return (lambda p: X.add(X.smul(fk, X.sub(p, fo)), fo)), (lambda v: X.smul(fk, v)), fk, [1.0 / args[0]] + list(args[1:])
    raise KeyError(op)


def ser(a):
    return a.to_dict() if hasattr(a, 'to_dict') else a


def deser(a):
    if isinstance(a, dict):
        from ladybug_geometry.dictutil import geometry_dict_to_object
        return geometry_dict_to_object(a)
    return a


def mag(ps):
    m = 1.0
    for p in ps:
        for c in p:
            m = max(m, abs(float(c)))
    return m


def special_object(rng, cls):
    """the special member of a class that every run must see at least once: full circles, grid meshes with shared per-face data"""
    for _ in range(60):
        o = Bd.make(rng, cls)
        if cls in ('Arc2D', 'Arc3D') and o.is_circle:
            return o
        if cls in ('Mesh2D', 'Mesh3D') and isinstance(getattr(o, '_face_areas', None), (int, float)):
            return o
    return Bd.make(rng, cls)


def check_one(ctx, rng, cls, op, special=False):
    o = special_object(rng, cls) if special and cls in ('Arc2D', 'Arc3D', 'Mesh2D', 'Mesh3D') else Bd.make(rng, cls)
    tiny = None
    if cls == 'Face3D' and op == 'scale' and rng.random() < 0.75:
        # a small face (a few centimetres across) in a tilted plane: scaling it down leaves an area of a few 1e-6 .. 1e-3 (edges still above 1e-3)
        fr = G.rational_frame(rng, special=False); og = G.rpt3(rng, 5.0)
        bb = G.star_polygon(rng, n=rng.randint(3, 6), R=0.0625, center=(0.0, 0.0), bits=14)
        try:
            o = Face3D([P3(G.embed(fr, og, p)) for p in bb])
            tiny = og
        except Exception:
            pass
    is3d = cls not in Bd.CLASSES_2D
    if not hasattr(o, op):
        return False
    isvec = cls in ('Vector2D', 'Vector3D')
    if isvec and op in ('move', 'scale'):
        return False
    args, pkey = gen_args(rng, op, is3d)
    if isvec:
        args = args[:-1]      # vectors: rotate(angle) / rotate(axis, angle) / reflect(normal): no origin
    if tiny is not None:
        args = [rng.choice([0.05, 0.0625, 0.03125, 0.025, 0.03125, 0.125, 4.0]), P3(tiny)]      # scaled about a point next to the face
    if special:
        # the special member is transformed both cold (nothing read yet) and warm (after it has answered its properties)
        evaluate(ctx, cls, op, o, args, pkey, warm=False)
        o2 = special_object(rng, cls) if cls in ('Arc2D', 'Arc3D', 'Mesh2D', 'Mesh3D') else Bd.make(rng, cls)
        return evaluate(ctx, cls, op, o2, args, pkey, warm=True)
    return evaluate(ctx, cls, op, o, args, pkey, warm=rng.random() < 0.5)


DERIVED = ('area', 'perimeter', 'length', 'volume', 'is_clockwise', 'is_convex', 'normal', 'centroid', 'center', 'min', 'max',
           'face_areas', 'face_normals', 'face_centroids', 'is_solid')


def derived(o):
    out = {}
    for nm in DERIVED:
        if isinstance(getattr(type(o), nm, None), property):
            try:
                out[nm] = getattr(o, nm)
            except Exception as e:
                out[nm] = 'raised %s' % type(e).__name__
    return out


def same_value(a, b, scale_):
    if isinstance(a, bool) or isinstance(b, bool) or isinstance(a, str) or isinstance(b, str) or a is None or b is None:
        return a == b
    if isinstance(a, (int, float)) and isinstance(b, (int, float)):
        return abs(a - b) <= 1e-8 * max(1.0, abs(a), abs(b), scale_)
    if isinstance(a, (tuple, list)) and isinstance(b, (tuple, list)):
        return len(a) == len(b) and all(same_value(x, y, scale_) for x, y in zip(a, b))
    if hasattr(a, 'to_array') and hasattr(b, 'to_array'):
        return same_value(tuple(a.to_array()), tuple(b.to_array()), scale_)
    return True


def evaluate(ctx, cls, op, o, args, pkey=None, warm=False):
    global _LOOSE
    is3d = cls not in Bd.CLASSES_2D
    isvec = cls in ('Vector2D', 'Vector3D')
    mp, mv, k, inv_args = ref_maps(op, args, is3d, isvec)
    desc = {'class': cls, 'op': op, 'args': [ser(a) for a in args], 'object': ser(o), 'warm': warm}
    if warm:
        derived(o)      # the source has answered its derived properties before it is transformed
    try:
        r = getattr(o, op)(*args)
    except Exception as e:
        ctx.violation('%s.%s:raises' % (cls, op), '%s.%s raised %r' % (cls, op, e), desc)
        return True
    pts, vecs, lens, areas, vols, inv = feats(o)
    rpts, rvecs, rlens, rareas, rvols, rinv = feats(r)
    ak = abs(k)
    bad = None
    exp_pts = [mp(X.fpt(p)) for p in pts]
    got_pts = [X.fpt(p) for p in rpts]
    scale_ = mag(exp_pts)
    setcmp = cls in ('Polygon2D', 'Face3D')    # reflection may re-order the loop
    if len(exp_pts) != len(got_pts):
        bad = 'number of defining points changed %d -> %d' % (len(exp_pts), len(got_pts))
    elif setcmp:
        rem = list(got_pts)
        for e in exp_pts:
            hit = [g for g in rem if X.pclose(e, g, TOL * _LOOSE, scale_)]
            if not hit:
                bad = 'mapped vertex %s missing in result' % (tuple(float(c) for c in e),); break
            rem.remove(hit[0])
    else:
        for e, g in zip(exp_pts, got_pts):
            if not X.pclose(e, g, TOL * _LOOSE, scale_):
                bad = 'point %s expected %s' % (tuple(float(c) for c in g), tuple(float(c) for c in e)); break
    if bad is None and type(o).__name__ in ('Arc2D', 'Arc3D') and o.is_circle:
        if not r.is_circle:
            bad = 'a full circle became a partial arc (a1=%r, a2=%r)' % (r.a1, r.a2)
        else:
            # every image of a circle point is at the radius from the new centre, in the new plane
            for t in (0.1, 0.37, 0.8):
                e = mp(X.fpt(o.point_at(t)))
                rr = r.radius if is3d else r.r
                if not X.close(X.sqd(e, X.fpt(r.c)), F(rr) ** 2, 1e-8 * _LOOSE, rr * rr):
                    bad = 'image of a circle point is not on the transformed circle'
                if is3d and abs(float(X.dot(X.fpt(r.plane.n), X.sub(e, X.fpt(r.c))))) > 1e-8 * scale_:
                    bad = 'image of a circle point is off the transformed circle plane'
    elif bad is None and type(o).__name__ in ('Arc2D', 'Arc3D'):
        e12 = sorted([tuple(float(c) for c in mp(X.fpt(o.p1))), tuple(float(c) for c in mp(X.fpt(o.p2)))])
        g12 = sorted([tuple(float(c) for c in X.fpt(r.p1)), tuple(float(c) for c in X.fpt(r.p2))])
        if not all(X.pclose(a, b, 1e-8 * _LOOSE, scale_) for a, b in zip(e12, g12)):
            bad = 'arc end points %s expected %s' % (g12, e12)
        # sampled points of the original map onto the result curve (a mirror reverses the direction)
        for t in (0.1, 0.37, 0.8):
            if bad: break
            e = mp(X.fpt(o.point_at(t)))
            g = X.fpt(r.point_at(1 - t if op == 'reflect' else t))
            if not X.pclose(e, g, 1e-8 * _LOOSE, scale_):
                bad = 'image of point_at(%s) is %s, the transformed arc has %s there' % (
                    t, tuple(float(c) for c in e), tuple(float(c) for c in g))
    if bad is None:
        for e, g in zip([mv(X.fpt(v)) for v in vecs], [X.fpt(v) for v in rvecs]):
            if cls in ('Cone', 'Cylinder', 'Plane') and op == 'scale':
                pass
            if not X.pclose(e, g, TOL * _LOOSE, mag([e])):
                bad = 'vector %s expected %s' % (tuple(float(c) for c in g), tuple(float(c) for c in e)); break
    if bad is None:
        for name, (a, b, pw) in (('length', (lens, rlens, 1)), ('area', (areas, rareas, 2)), ('volume', (vols, rvols, 3))):
            for x, y in zip(a, b):
                if not X.close(F(x) * ak ** pw, y, 1e-8 * _LOOSE, 1e-12):
                    bad = '%s %r -> %r, expected factor |k|^%d = %r' % (name, x, y, pw, float(ak ** pw)); break
            if bad: break
    if bad is None and inv != rinv:
        if not (len(inv) == len(rinv) and all(x == y or (isinstance(x, float) and X.close(x, y, 1e-7)) for x, y in zip(inv, rinv))):
            bad = 'invariant attributes changed %r -> %r' % (inv, rinv)
    if bad is None:
        for (nm, u), (_, w) in zip(unit_dirs(o), unit_dirs(r)):
            e = mv(X.fpt(u))
            if ak != 1:
                e = X.fpt(u)      # scaling keeps directions
            g = X.fpt(w)
            if not X.close(X.norm2(g), 1, 1e-9):
                bad = '%s no longer unit: |.|^2=%r' % (nm, float(X.norm2(g))); break
            if cls == 'Face3D' and op == 'reflect':
                # normal must still be the right-hand-rule normal of the stored boundary
                nw = X.newell([X.fpt(p) for p in r.boundary])
                if X.dot(nw, g) <= 0:
                    bad = 'face normal opposes the boundary orientation after reflect'; break
                continue
            if cls == 'Arc3D' and op == 'reflect':
                continue
            if cls == 'Plane' and op == 'reflect' and nm == 'y':
                e = X.smul(-1, e)     # y = n x x stays right-handed, so it is minus the mirrored y
            if not X.pclose(e, g, 1e-9 * _LOOSE, 1.0):
                bad = '%s = %s expected %s' % (nm, tuple(float(c) for c in g), tuple(float(c) for c in e)); break
    if bad is None and cls == 'Face3D':
        nw = X.newell([X.fpt(p) for p in r.boundary])
        if X.dot(nw, X.fpt(r.normal)) <= 0:
            bad = 'normal is not the right-hand-rule normal of the boundary'
        elif r.boundary_polygon2d.is_clockwise:
            bad = 'boundary became clockwise'
    if bad is None and cls == 'Polyface3D' and o.is_solid:
        if not r.is_solid or r.volume <= 0:
            bad = 'solid no longer outward facing (volume %r)' % (r.volume,)
    if bad is None and cls == 'Polyface3D':
        # the Face3D objects of the image are the images of the source's faces (as point sets, face by face)
        if len(o.faces) != len(r.faces):
            bad = 'number of faces changed'
        for fi, (fo, fr) in enumerate(zip(o.faces, r.faces)):
            if bad: break
            rem = [X.fpt(p) for p in fr.vertices]
            for e in [mp(X.fpt(p)) for p in fo.vertices]:
                hit = [g for g in rem if X.pclose(e, g, TOL * _LOOSE, scale_)]
                if not hit:
                    bad = 'faces[%d] of the image lacks the mapped vertex %s of faces[%d] of the source%s' % (
                        fi, tuple(float(c) for c in e), fi, ' (source had answered its properties before the transform)' if warm else '')
                    break
                rem.remove(hit[0])
            if bad is None:
                # ... and each of them winds about its own normal, which is the image of the source face's normal
                nw = X.newell([X.fpt(p) for p in fr.boundary])
                if X.dot(nw, X.fpt(fr.normal)) <= 0:
                    bad = 'faces[%d] of the image winds against its own normal' % fi
                else:
                    en = mv(X.fpt(fo.normal)) if ak == 1 else X.fpt(fo.normal)
                    if not X.pclose(en, X.fpt(fr.normal), 1e-7 * _LOOSE, 1.0):
                        bad = 'faces[%d] of the image has normal %s, the image of the source face normal is %s' % (
                            fi, tuple(float(c) for c in X.fpt(fr.normal)), tuple(float(c) for c in en))
    if bad is None and hasattr(r, 'to_dict') and hasattr(type(r), 'from_dict') and not isvec:
        # the image answers its derived properties like a fresh object built from the image's own defining data
        try:
            fresh = type(r).from_dict(r.to_dict())
            dr, df = derived(r), derived(fresh)
            for nm in dr:
                if not same_value(dr[nm], df[nm], float(scale_)):
                    bad = 'image.%s = %r but an object rebuilt from the image reports %r%s' % (
                        nm, dr[nm], df[nm], ' (source had answered its properties before the transform)' if warm else '')
                    break
        except Exception as e:
            bad = None
    if bad is None:
        # inverse map returns an equivalent shape
        try:
            back = getattr(r, op)(*inv_args)
            bpts = [X.fpt(p) for p in feats(back)[0]]
            opts = [X.fpt(p) for p in pts]
            sc = max(mag(opts), scale_)
            if setcmp:
                okk = all(any(X.pclose(e, g, 1e-8 * _LOOSE, sc) for g in bpts) for e in opts)
            else:
                okk = len(bpts) == len(opts) and all(X.pclose(e, g, 1e-8 * _LOOSE, sc) for e, g in zip(opts, bpts))
            if not okk:
                bad = 'inverse map does not return the original points'
        except Exception as e:
            bad = 'inverse map raised %r' % (e,)
    if bad and cls in ('Arc2D', 'Arc3D') and op == 'reflect' and _LOOSE == 1.0 and 'raised' not in bad:
        # is it a gross error or only the conditioning of the three-point / acos reconstruction?
        scratch = core.Ctx(ctx.pid, ctx.tier, 0)
        _LOOSE = 1e4
        try:
            evaluate(scratch, cls, op, o, args)
        finally:
            _LOOSE = 1.0
        if not scratch.violations:
            bad = 'PRECISION (agrees only to ~1e-5 relative, not 1e-9): ' + bad
    nontriv = not (op == 'scale' and k == 1)
    ctx.count('%s.%s' % (cls, op), key=pkey, sample=desc, nontrivial=nontriv)
    if bad:
        kind = '%s.%s:%s' % (cls, op, classify(cls, op, o, args, bad))
        ctx.violation(kind, bad, dict(desc, problem=bad))
        return True
    return False


def classify(cls, op, o, args, bad):
    """input class of a failure (used to tell known findings from new ones)"""
    if cls in ('Arc2D', 'Arc3D') and op in ('rotate', 'rotate_xy'):
        ang = args[-2]
        if ang < 0:
            return 'negative_angle'
        if o.is_circle:
            return 'circle'
        if ang > 2 * math.pi:
            return 'angle_gt_2pi'
    if 'raise' in bad:
        return 'raises'
    if bad.startswith('image.'):
        return 'derived_' + bad.split(' ')[0][6:] + ('_warm' if 'before the transform' in bad else '')
    if cls in ('Arc2D', 'Arc3D') and op == 'reflect' and 'PRECISION' in bad:
        return 'precision'
    if 'area' in bad or 'volume' in bad or 'length' in bad:
        return 'measure'
    return 'image'


def rng_state(ctx):
    return ctx.seed


OPS = ['move', 'rotate', 'rotate_xy', 'reflect', 'scale']


def explore(ctx):
    rng = ctx.rng
    per = ctx.n(5, 40)
    for cls in Bd.ALL_CLASSES:
        for op in OPS:
            for i_ in range(per):
                try:
                    check_one(ctx, rng, cls, op, special=(i_ == 0))
                except AssertionError as e:
                    ctx.violation('%s.%s:raises' % (cls, op), 'AssertionError %s' % e, {'class': cls, 'op': op})
    for _ in range(ctx.n(12, 60)):      # more of the small faces scaled down (the plane of the image is rebuilt from its vertices)
        try:
            check_one(ctx, rng, 'Face3D', 'scale')
        except AssertionError as e:
            ctx.violation('Face3D.scale:raises', 'AssertionError %s' % e, {'class': 'Face3D', 'op': 'scale'})


def replay(ctx, data):
    d = data.get('data') or {}
    kind = data.get('kind', '')
    cls, rest = kind.split('.', 1)
    op = rest.split(':')[0]
    c2 = core.Ctx(ctx.pid, ctx.tier, 0)
    if isinstance(d, dict) and 'object' in d and isinstance(d['object'], dict):
        evaluate(c2, cls, op, deser(d['object']), [deser(a) for a in d['args']], warm=bool(d.get('warm')))
        return any(v.kind == kind for v in c2.violations)
    for _ in range(400):
        check_one(c2, c2.rng, cls, op)
        if any(v.kind == kind for v in c2.violations):
            return True
    return False


# ------------------------------------------------------------ correspondence
def correspond(ctx):
    rng = ctx.rng
    cases, meta = [], []
    n = ctx.n(60, 400)
    pre = ('Definition c2 (a b : V2) (t : Q) : bool := Qle_bool (Qabs (v2x a - v2x b)) t && Qle_bool (Qabs (v2y a - v2y b)) t.\n'
           'Definition c3 (a b : V3) (t : Q) : bool := Qle_bool (Qabs (v3x a - v3x b)) t && Qle_bool (Qabs (v3y a - v3y b)) t '
           '&& Qle_bool (Qabs (v3z a - v3z b)) t.\n')
    for i in range(n):
        ang = rng.uniform(-4 * math.pi, 4 * math.pi)
        c, s = q(math.cos(ang)), q(math.sin(ang))
        fc = '(fun _ => %s) (fun _ => %s)' % (c, s)
        p, o, nrm2 = G.rpt2(rng, 1000), G.rpt2(rng, 1000), None
        cc, ss, _ = G.pythagorean_angle(rng)
        nrm2 = (float(cc), float(ss))
        k = G.dy(math.exp(rng.uniform(-3, 3)), 12) or 0.5
        tol = q(Fraction(1, 10 ** 8))
        r = P2(p).rotate(ang, P2(o))
        cases.append('c2 (Point2D_rotate %s %s %s %s) %s %s' % (fc, v2(p), q(ang), v2(o), v2((r.x, r.y)), tol))
        meta.append(('Point2D.rotate', p, ang, o))
        r = P2(p).reflect(V2(nrm2), P2(o))
        cases.append('c2 (Point2D_reflect %s %s %s) %s %s' % (v2(p), v2(nrm2), v2(o), v2((r.x, r.y)), tol))
        meta.append(('Point2D.reflect', p, nrm2, o))
        r = P2(p).scale(k, P2(o))
        cases.append('c2 (Point2D_scale %s %s %s) %s %s' % (v2(p), q(k), v2(o), v2((r.x, r.y)), tol))
        meta.append(('Point2D.scale', p, k, o))
        p3, o3, ax = G.rpt3(rng, 1000), G.rpt3(rng, 1000), G.rvec3(rng, 10)
        r = P3(p3).rotate(V3(ax), ang, P3(o3))
        cases.append('c3 (Point3D_rotate qsqrt_exec %s %s %s %s %s) %s %s' % (fc, v3(p3), v3(ax), q(ang), v3(o3),
                                                                               v3((r.x, r.y, r.z)), tol))
        meta.append(('Point3D.rotate', p3, ax, ang, o3))
        r = P3(p3).rotate_xy(ang, P3(o3))
        cases.append('c3 (Point3D_rotate_xy %s %s %s %s) %s %s' % (fc, v3(p3), q(ang), v3(o3), v3((r.x, r.y, r.z)), tol))
        meta.append(('Point3D.rotate_xy', p3, ang, o3))
        fr = G.rational_frame(rng)
        nrm = fr[2]
        r = P3(p3).reflect(V3(nrm), P3(o3))
        cases.append('c3 (Point3D_reflect %s %s %s) %s %s' % (v3(p3), v3(nrm), v3(o3), v3((r.x, r.y, r.z)), tol))
        meta.append(('Point3D.reflect', p3, nrm, o3))
        r = P3(p3).scale(k, P3(o3))
        cases.append('c3 (Point3D_scale %s %s %s) %s %s' % (v3(p3), q(k), v3(o3), v3((r.x, r.y, r.z)), tol))
        meta.append(('Point3D.scale', p3, k, o3))
    res = core.run_cases('C02_corr', ['Base', 'G0_vec', 'G1_shapes'], pre, cases)
    ctx.corr_cases += len(cases)
    for ok, m in zip(res, meta):
        if ok is not True:
            ctx.corr_fail.append({'function': m[0], 'input': repr(m[1:]), 'result': 'model and implementation differ'
                                  if ok is False else 'model evaluation failed'})
