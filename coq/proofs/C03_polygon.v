(* C03: the memo steps of Polygon2D's signed-area slot are sound (laws proved from C01), hence no
   history of reverse / move / rotate / reflect / duplicate / reads makes Polygon2D.area, is_clockwise stale. *)
From LBG Require Import Base QGeom ListCyc G0_vec G1_shapes G2_inter G3_poly C02_kernels C01_area Cache.
Open Scope Q_scope.

(* the value cached in Polygon2D._area: the SIGNED half shoelace sum of the vertex loop *)
Definition fresh_area (p : Polygon2R) : Q := shoelace2 (pg_vertices p) / 2.

Lemma half_proper a b : a == b -> a / 2 == b / 2.
Proof. intros E. rewrite E. reflexivity. Qed.

(* reverse: the source negates the cached value (X_xfer: Neg) *)
Lemma reverse_step_sound :
  sound Polygon2R Q fresh_area Qeq {| sf := Polygon2D_reverse; sg := option_map Qopp |}.
Proof.
  apply map_sound.
  - exact Qeq_trans.
  - intros a b E. rewrite E. reflexivity.
  - intros d. unfold fresh_area. rewrite polygon_reverse_area. field.
Qed.

(* move: copied *)
Lemma move_step_sound t :
  sound Polygon2R Q fresh_area Qeq {| sf := fun p => Polygon2D_move p t; sg := fun o => o |}.
Proof.
  apply copy_sound; [exact Qeq_trans|]. intros d. unfold fresh_area. rewrite polygon_move_area. reflexivity.
Qed.

(* rotate by any angle: copied *)
Lemma rotate_step_sound qcos qsin a o : qcos a * qcos a + qsin a * qsin a == 1 ->
  sound Polygon2R Q fresh_area Qeq {| sf := fun p => Polygon2D_rotate qcos qsin p a o; sg := fun x => x |}.
Proof.
  intros U. apply copy_sound; [exact Qeq_trans|]. intros d. unfold fresh_area.
  rewrite (polygon_rotate_area qcos qsin a d o U). reflexivity.
Qed.

(* reflect across a unit normal: negated *)
Lemma reflect_step_sound n o : dot2 n n == 1 ->
  sound Polygon2R Q fresh_area Qeq {| sf := fun p => Polygon2D_reflect p n o; sg := option_map Qopp |}.
Proof.
  intros U. apply map_sound.
  - exact Qeq_trans.
  - intros a b E. rewrite E. reflexivity.
  - intros d. unfold fresh_area. rewrite (polygon_reflect_area n d o U). field.
Qed.

(* had reverse merely COPIED the signed area (the defect that was repaired), the step would be unsound
   for every polygon of non-zero area *)
Lemma reverse_copy_unsound p : ~ shoelace2 (pg_vertices p) == 0 ->
  ~ sound Polygon2R Q fresh_area Qeq {| sf := Polygon2D_reverse; sg := fun o => o |}.
Proof.
  intros Hz S. specialize (S p (Some (fresh_area p)) ltac:(intros v E; injection E as <-; reflexivity) (fresh_area p) eq_refl).
  cbn in S. unfold fresh_area in S. rewrite polygon_reverse_area in S.
  apply Hz. assert (E : shoelace2 (pg_vertices p) / 2 == - shoelace2 (pg_vertices p) / 2) by exact S.
  assert (E2 : shoelace2 (pg_vertices p) / 2 * 2 == - shoelace2 (pg_vertices p) / 2 * 2) by (rewrite E; reflexivity).
  field_simplify in E2. lra.
Qed.

(* any history built from these steps and reads keeps the slot coherent *)
Inductive poly_step : step Polygon2R Q -> Prop :=
| PS_read : poly_step (read_step Polygon2R Q)
| PS_reverse : poly_step {| sf := Polygon2D_reverse; sg := option_map Qopp |}
| PS_move t : poly_step {| sf := fun p => Polygon2D_move p t; sg := fun o => o |}
| PS_rotate qcos qsin a o : qcos a * qcos a + qsin a * qsin a == 1 ->
    poly_step {| sf := fun p => Polygon2D_rotate qcos qsin p a o; sg := fun x => x |}
| PS_reflect n o : dot2 n n == 1 -> poly_step {| sf := fun p => Polygon2D_reflect p n o; sg := option_map Qopp |}
| PS_drop f : poly_step {| sf := f; sg := fun _ => None |}.     (* scale, remove_*, ...: nothing carried over *)

Lemma poly_step_sound s : poly_step s -> sound Polygon2R Q fresh_area Qeq s.
Proof.
  destruct 1.
  - apply fill_sound.
  - apply reverse_step_sound.
  - apply move_step_sound.
  - apply rotate_step_sound; assumption.
  - apply reflect_step_sound; assumption.
  - apply reset_sound.
Qed.

Theorem polygon_area_never_stale (h : list (step Polygon2R Q)) : Forall poly_step h ->
  forall p, observe Polygon2R Q fresh_area (run Polygon2R Q h (p, None))
            == fresh_area (fst (run Polygon2R Q h (p, None))).
Proof.
  intros H p. apply (observed_value_is_fresh Polygon2R Q fresh_area Qeq); [intros; reflexivity|].
  eapply Forall_impl; [|exact H]. intros s Hs. apply poly_step_sound. exact Hs.
Qed.
