(* C02_shapes.v -- transforms of the 1D shapes and solids of revolution (generated from the source): the image of the point at
   parameter t of a segment / ray is the point at parameter t of the transformed segment / ray, for every transform - so the image of the
   point set is the point set of the image; spheres, cylinders and cones carry their centre / apex and axis the same way.  The trigonometric
   oracles are arbitrary here: these are statements about how each class composes the point and vector kernels (whose metric properties
   are the subject of C02_kernels). *)
From LBG Require Import Base QGeom G0_vec G1_shapes G8_curve C02_kernels.
Open Scope Q_scope.

Ltac crunch2 := unfold v2eq; cbn [v2x v2y lr2p lr2v]; repeat split; ring.
Ltac crunch3 := unfold v3eq, Qdiv; cbn [v2x v2y v3x v3y v3z lr3p lr3v]; repeat split; ring.

(* ------------------------------------------------------------------ 2D segments / rays (same record) *)
Theorem seg2_move_point_at l m t :
  Point2D_move (LineSegment2D_point_at l t) m =2= LineSegment2D_point_at (LineSegment2D_move l m) t.
Proof.
  unfold LineSegment2D_point_at, LineSegment2D_move, LineSegment2D_op_init, Point2D_move, Vector2D_op_add, Vector2D_op_mul. cbv zeta. crunch2.
Qed.

Theorem seg2_rotate_point_at qcos qsin l a o t :
  Point2D_rotate qcos qsin (LineSegment2D_point_at l t) a o =2= LineSegment2D_point_at (LineSegment2D_rotate qcos qsin l a o) t.
Proof.
  unfold LineSegment2D_point_at, LineSegment2D_rotate, LineSegment2D_op_init, Point2D_rotate, Vector2D_rotate, Vector2D__rotate,
    Vector2D_op_add, Vector2D_op_mul, Point2D_op_sub. cbv zeta. crunch2.
Qed.

Theorem seg2_reflect_point_at l n o t :
  Point2D_reflect (LineSegment2D_point_at l t) n o =2= LineSegment2D_point_at (LineSegment2D_reflect l n o) t.
Proof.
  unfold LineSegment2D_point_at, LineSegment2D_reflect, LineSegment2D_op_init, Point2D_reflect, Vector2D_reflect, Vector2D__reflect,
    Vector2D_op_add, Vector2D_op_mul, Point2D_op_sub. cbv zeta. crunch2.
Qed.

Theorem seg2_scale_point_at l k o t :
  Point2D_scale (LineSegment2D_point_at l t) k o =2= LineSegment2D_point_at (LineSegment2D_scale l k o) t.
Proof.
  unfold LineSegment2D_point_at, LineSegment2D_scale, LineSegment2D_op_init, Point2D_scale, Vector2D_op_add, Vector2D_op_mul, Point2D_op_sub.
  cbv zeta. crunch2.
Qed.

(* ------------------------------------------------------------------ 3D segments / rays *)
Theorem seg3_move_point_at l m t :
  Point3D_move (LineSegment3D_point_at l t) m =3= LineSegment3D_point_at (LineSegment3D_move l m) t.
Proof.
  unfold LineSegment3D_point_at, LineSegment3D_move, LineSegment3D_op_init, Point3D_move, Vector3D_op_add, Vector3D_op_mul. cbv zeta. crunch3.
Qed.

Theorem seg3_rotate_point_at qsqrt qcos qsin l axis a o t :
  Point3D_rotate qsqrt qcos qsin (LineSegment3D_point_at l t) axis a o
  =3= LineSegment3D_point_at (LineSegment3D_rotate qsqrt qcos qsin l axis a o) t.
Proof.
  unfold LineSegment3D_point_at, LineSegment3D_rotate, LineSegment3D_op_init, Point3D_rotate, Vector3D_rotate, Vector3D__rotate,
    Vector3D_op_add, Vector3D_op_mul, Vector3D_op_sub. cbv zeta. crunch3.
Qed.

Theorem seg3_rotate_xy_point_at qcos qsin l a o t :
  Point3D_rotate_xy qcos qsin (LineSegment3D_point_at l t) a o =3= LineSegment3D_point_at (LineSegment3D_rotate_xy qcos qsin l a o) t.
Proof.
  unfold LineSegment3D_point_at, LineSegment3D_rotate_xy, LineSegment3D_op_init, Point3D_rotate_xy, Vector3D_rotate_xy, Vector2D__rotate_2,
    Vector3D_op_add, Vector3D_op_mul, Vector3D_op_sub. cbv zeta. crunch3.
Qed.

Theorem seg3_reflect_point_at l n o t :
  Point3D_reflect (LineSegment3D_point_at l t) n o =3= LineSegment3D_point_at (LineSegment3D_reflect l n o) t.
Proof.
  unfold LineSegment3D_point_at, LineSegment3D_reflect, LineSegment3D_op_init, Point3D_reflect, Vector3D_reflect, Vector3D__reflect,
    Vector3D_op_add, Vector3D_op_mul, Vector3D_op_sub. cbv zeta. crunch3.
Qed.

Theorem seg3_scale_point_at l k o t :
  Point3D_scale (LineSegment3D_point_at l t) k o =3= LineSegment3D_point_at (LineSegment3D_scale l k o) t.
Proof.
  unfold LineSegment3D_point_at, LineSegment3D_scale, LineSegment3D_op_init, Point3D_scale, Vector3D_op_add, Vector3D_op_mul, Vector3D_op_sub.
  cbv zeta. crunch3.
Qed.

(* ------------------------------------------------------------------ spheres: surface points go to surface points *)
Definition on_sphere (s : SphereR) (q : V3) : Prop := sqd3 q (sp_c s) == sp_r s * sp_r s.

Theorem sphere_move_surface s q m : on_sphere s q -> on_sphere (Sphere_move s m) (Point3D_move q m).
Proof. unfold on_sphere, Sphere_move, Sphere_op_init. cbv zeta. cbn [sp_c sp_r]. intros H. rewrite point3_move_sqd. exact H. Qed.

Theorem sphere_scale_surface s q k o : on_sphere s q -> on_sphere (Sphere_scale s k o) (Point3D_scale q k o).
Proof.
  unfold on_sphere, Sphere_scale, Sphere_op_init. cbv zeta. cbn [sp_c sp_r]. intros H. rewrite point3_scale_sqd, H. ring.
Qed.

Theorem sphere_reflect_surface s q n o : dot3 n n == 1 -> on_sphere s q -> on_sphere (Sphere_reflect s n o) (Point3D_reflect q n o).
Proof.
  unfold on_sphere, Sphere_reflect, Sphere_op_init. cbv zeta. cbn [sp_c sp_r]. intros Hn H. rewrite (point3_reflect_sqd n Hn). exact H.
Qed.

Theorem sphere_rotate_surface qsqrt qcos qsin s q axis a o :
  qcos a * qcos a + qsin a * qsin a == 1 ->
  qsqrt (v3x axis * v3x axis + v3y axis * v3y axis + v3z axis * v3z axis)
    * qsqrt (v3x axis * v3x axis + v3y axis * v3y axis + v3z axis * v3z axis)
    == v3x axis * v3x axis + v3y axis * v3y axis + v3z axis * v3z axis ->
  ~ v3x axis * v3x axis + v3y axis * v3y axis + v3z axis * v3z axis == 0 ->
  on_sphere s q -> on_sphere (Sphere_rotate qsqrt qcos qsin s axis a o) (Point3D_rotate qsqrt qcos qsin q axis a o).
Proof.
  unfold on_sphere, Sphere_rotate, Sphere_op_init. cbv zeta. cbn [sp_c sp_r]. intros H1 H2 H3 H.
  rewrite (point3_rotate_sqd qsqrt qcos qsin axis a H1 H2 H3). exact H.
Qed.

(* ------------------------------------------------------------------ cylinders and cones: the axis line is carried pointwise *)
Definition axis_pt (c ax : V3) (t : Q) : V3 := add3 c (smul3 t ax).

Ltac crunchA := unfold axis_pt, add3, smul3, v3eq, Qdiv; cbn [v2x v2y v3x v3y v3z cy_c cy_axis cy_r co_vertex co_axis co_angle];
                repeat split; ring.

Theorem cylinder_move_axis s m t :
  Point3D_move (axis_pt (cy_c s) (cy_axis s) t) m =3= axis_pt (cy_c (Cylinder_move s m)) (cy_axis (Cylinder_move s m)) t.
Proof. unfold Cylinder_move, Cylinder_op_init, Point3D_move. cbv zeta. crunchA. Qed.

Theorem cylinder_rotate_axis qsqrt qcos qsin s axis a o t :
  Point3D_rotate qsqrt qcos qsin (axis_pt (cy_c s) (cy_axis s) t) axis a o
  =3= axis_pt (cy_c (Cylinder_rotate qsqrt qcos qsin s axis a o)) (cy_axis (Cylinder_rotate qsqrt qcos qsin s axis a o)) t.
Proof.
  unfold Cylinder_rotate, Cylinder_op_init, Point3D_rotate, Vector3D_rotate, Vector3D__rotate, Vector3D_op_add, Vector3D_op_sub. cbv zeta. crunchA.
Qed.

Theorem cylinder_reflect_axis s n o t :
  Point3D_reflect (axis_pt (cy_c s) (cy_axis s) t) n o
  =3= axis_pt (cy_c (Cylinder_reflect s n o)) (cy_axis (Cylinder_reflect s n o)) t.
Proof.
  unfold Cylinder_reflect, Cylinder_op_init, Point3D_reflect, Vector3D_reflect, Vector3D__reflect, Vector3D_op_add, Vector3D_op_sub. cbv zeta. crunchA.
Qed.

Theorem cylinder_scale_axis s k o t :
  Point3D_scale (axis_pt (cy_c s) (cy_axis s) t) k o
  =3= axis_pt (cy_c (Cylinder_scale s k o)) (cy_axis (Cylinder_scale s k o)) t
  /\ cy_r (Cylinder_scale s k o) == cy_r s * k.
Proof.
  unfold Cylinder_scale, Cylinder_op_init, Point3D_scale, Vector3D_op_add, Vector3D_op_sub, Vector3D_op_mul. cbv zeta.
  split; [crunchA | cbn [cy_r]; reflexivity].
Qed.

Theorem cone_move_axis s m t :
  Point3D_move (axis_pt (co_vertex s) (co_axis s) t) m =3= axis_pt (co_vertex (Cone_move s m)) (co_axis (Cone_move s m)) t
  /\ co_angle (Cone_move s m) = co_angle s.
Proof. unfold Cone_move, Cone_op_init, Point3D_move. cbv zeta. split; [crunchA | reflexivity]. Qed.

Theorem cone_rotate_axis qsqrt qcos qsin s axis a o t :
  Point3D_rotate qsqrt qcos qsin (axis_pt (co_vertex s) (co_axis s) t) axis a o
  =3= axis_pt (co_vertex (Cone_rotate qsqrt qcos qsin s axis a o)) (co_axis (Cone_rotate qsqrt qcos qsin s axis a o)) t
  /\ co_angle (Cone_rotate qsqrt qcos qsin s axis a o) = co_angle s.
Proof.
  unfold Cone_rotate, Cone_op_init, Point3D_rotate, Vector3D_rotate, Vector3D__rotate, Vector3D_op_add, Vector3D_op_sub. cbv zeta.
  split; [crunchA | reflexivity].
Qed.

Theorem cone_reflect_axis s n o t :
  Point3D_reflect (axis_pt (co_vertex s) (co_axis s) t) n o
  =3= axis_pt (co_vertex (Cone_reflect s n o)) (co_axis (Cone_reflect s n o)) t
  /\ co_angle (Cone_reflect s n o) = co_angle s.
Proof.
  unfold Cone_reflect, Cone_op_init, Point3D_reflect, Vector3D_reflect, Vector3D__reflect, Vector3D_op_add, Vector3D_op_sub. cbv zeta.
  split; [crunchA | reflexivity].
Qed.

Theorem cone_scale_axis s k o t :
  Point3D_scale (axis_pt (co_vertex s) (co_axis s) t) k o
  =3= axis_pt (co_vertex (Cone_scale s k o)) (co_axis (Cone_scale s k o)) t
  /\ co_angle (Cone_scale s k o) = co_angle s.
Proof.
  unfold Cone_scale, Cone_op_init, Point3D_scale, Vector3D_op_add, Vector3D_op_sub, Vector3D_op_mul. cbv zeta.
  split; [crunchA | reflexivity].
Qed.

(* ------------------------------------------------------------------ arcs: move and scale carry every point of the arc (the angular
   parameters are untouched, so the same oracle values appear on both sides; rotate / reflect re-compute angles and are searched) *)
From LBG Require Import G5_bound.

Theorem arc2_move_point_at qcos qsin qpi a m t :
  Point2D_move (Arc2D_point_at qcos qsin qpi a t) m =2= Arc2D_point_at qcos qsin qpi (Arc2D_move a m) t.
Proof.
  unfold Arc2D_point_at, Arc2D_move, Arc2D_op_init, Arc2D_angle, Arc2D_is_inverted, Point2D_move. cbv zeta. cbn [a2_c a2_r a2_a1 a2_a2].
  destruct (Qle_bool _ _); unfold v2eq; cbn [v2x v2y]; repeat split; ring.
Qed.

Theorem arc2_scale_point_at qcos qsin qpi a k o t :
  Point2D_scale (Arc2D_point_at qcos qsin qpi a t) k o =2= Arc2D_point_at qcos qsin qpi (Arc2D_scale a k o) t.
Proof.
  unfold Arc2D_point_at, Arc2D_scale, Arc2D_op_init, Arc2D_angle, Arc2D_is_inverted, Point2D_scale, Vector2D_op_add, Vector2D_op_mul, Point2D_op_sub.
  cbv zeta. cbn [a2_c a2_r a2_a1 a2_a2].
  destruct (Qle_bool _ _); unfold v2eq; cbn [v2x v2y]; repeat split; ring.
Qed.
