(* C03_planemove.v -- why 2D data cached in a face's plane frame stays valid after a move: the moved plane (generated Plane.move) has
   the same axes, so a cached 2D point mapped through the MOVED plane is the moved 3D point, and the 2D coordinates of a moved 3D
   point in the moved plane are the old ones.  (Face3D.move hands polygon2d / mesh2d to the new face; mesh_grid builds its offset
   grid through plane.move.) *)
From LBG Require Import Base QGeom G0_vec G1_shapes C02_kernels C06_plane C02_planes.
Open Scope Q_scope.

Section WithSqrt.
Variable qsqrt : Q -> Q.
Hypothesis sqrt_proper : Proper (Qeq ==> Qeq) qsqrt.
Hypothesis sqrt_one : qsqrt 1 == 1.

Lemma moved_axes p m : frame_ok p ->
  let p' := Plane_move qsqrt p m in
  pl_x p' =3= pl_x p /\ pl_y p' =3= pl_y p /\ pl_o p' = Point3D_move (pl_o p) m.
Proof.
  intros F. cbv zeta. destruct (plane_move_frame qsqrt sqrt_proper sqrt_one p m F) as (F' & En & Ex & Eo & _).
  split; [exact Ex|]. split; [|exact Eo].
  destruct F as (_ & _ & _ & Y & _). destruct F' as (_ & _ & _ & Y' & _).
  rewrite Y', Y. destruct En as (n1 & n2 & n3). destruct Ex as (x1 & x2 & x3).
  unfold cross3, v3eq. cbn [v3x v3y v3z]. rewrite n1, n2, n3, x1, x2, x3. repeat split; reflexivity.
Qed.

Theorem cached_2d_point_maps_to_the_moved_point p m q : frame_ok p ->
  Plane_xy_to_xyz (Plane_move qsqrt p m) q =3= Point3D_move (Plane_xy_to_xyz p q) m.
Proof.
  intros F. destruct (moved_axes p m F) as ((x1 & x2 & x3) & (y1 & y2 & y3) & Eo).
  unfold Plane_xy_to_xyz. cbv zeta. rewrite Eo. unfold Point3D_move, v3eq. cbn [v3x v3y v3z].
  rewrite x1, x2, x3, y1, y2, y3. repeat split; ring.
Qed.

Theorem moved_point_keeps_its_2d_coordinates p m r : frame_ok p ->
  Plane_xyz_to_xy (Plane_move qsqrt p m) (Point3D_move r m) =2= Plane_xyz_to_xy p r.
Proof.
  intros F. destruct (moved_axes p m F) as ((x1 & x2 & x3) & (y1 & y2 & y3) & Eo).
  unfold Plane_xyz_to_xy. cbv zeta. rewrite Eo. unfold Point3D_move, Vector3D_dot, v2eq. cbn [v3x v3y v3z v2x v2y].
  rewrite x1, x2, x3, y1, y2, y3. split; ring.
Qed.
End WithSqrt.
