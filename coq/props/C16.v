(* C16 -- 2D and 3D siblings agree.  The plane embedding commutes with the primitives; the segment routines of the
   3D sibling applied to embedded data return the embedded 2D results; the subdivision counts agree for all
   n in 1..500 because both siblings run the same repaired loop (FloatLoops.v models both).  Other members are
   compared by introspection in the harness. *)
From Coq Require Import ZArith List Bool.
From LBG Require Import Base QGeom G0_vec G1_shapes G2_inter G8_curve C11_inter2d C12_closest C06_plane C16_embed FloatLoops.
Open Scope Q_scope.

Theorem C16_embedding_is_isometry : forall pl, frame_ok pl -> forall a b, sqd3 (emb pl a) (emb pl b) == sqd2 a b.
Proof. exact emb_isometry. Qed.
Print Assumptions C16_embedding_is_isometry.

Theorem C16_embedding_preserves_dot : forall pl, frame_ok pl -> forall u v, dot3 (embv pl u) (embv pl v) == dot2 u v.
Proof. exact embv_dot. Qed.
Print Assumptions C16_embedding_preserves_dot.

Theorem C16_closest_point_on_segment_agrees : forall pl, frame_ok pl -> forall q l, ~ dot2 (lr2v l) (lr2v l) == 0 ->
  closest_point3d_on_line3d_seg (emb pl q) (emb_lr pl l) =3= emb pl (closest_point2d_on_line2d_seg q l).
Proof. exact closest_point_segment_agrees. Qed.
Print Assumptions C16_closest_point_on_segment_agrees.

Theorem C16_point_at_agrees : forall pl l t, LineSegment3D_point_at (emb_lr pl l) t =3= emb pl (LineSegment2D_point_at l t).
Proof. exact point_at_agrees. Qed.
Print Assumptions C16_point_at_agrees.

(* both siblings return n+1 points for every n in 1..500 (same loop, same repair) *)
Theorem C16_subdivide_evenly_counts_agree : forall n, (1 <= n <= 500)%Z -> seg_evenly_count n = (Z.to_nat n + 1)%nat.
Proof. exact seg_evenly_count_spec. Qed.
Print Assumptions C16_subdivide_evenly_counts_agree.

(* the 3D quad area centroid (generated Mesh3D._quad_centroid) of a plane-embedded convex quad is the embedding of the 2D area
   centroid - the value the 2D sibling reports - for every orthonormal frame *)
From LBG Require Import G12_mesh C01_mesh.

Theorem C16_mesh3d_quad_centroid_is_embedded_2d_centroid : forall qsqrt, Proper (Qeq ==> Qeq) qsqrt -> forall p, frame_ok p ->
  forall p0 p1 p2 p3,
  let s0 := tri2 p0 p1 p2 in let s1 := tri2 p2 p3 p0 in
  0 < s0 -> 0 < s1 -> qsqrt (s0 * s0) == Qabs s0 -> qsqrt (s1 * s1) == Qabs s1 ->
  Mesh3D__quad_centroid qsqrt [Plane_xy_to_xyz p p0; Plane_xy_to_xyz p p1; Plane_xy_to_xyz p p2; Plane_xy_to_xyz p p3]
  =3= Plane_xy_to_xyz p (quad_centroid2 p0 p1 p2 p3).
Proof. exact mesh3d_quad_centroid_embedded. Qed.
Print Assumptions C16_mesh3d_quad_centroid_is_embedded_2d_centroid.

(* vertex clean-up of open polylines: the 3D routine (generated from the source) is the same keep-if-corner scan as the 2D one, with the
   test |(a - v) x (n - v)| >= tolerance, and on plane-embedded data the siblings keep the same vertices *)
From LBG Require Import G9_clean C15_polyline C16_polyline C16_join.
Import ListNotations.
Theorem C16_polyline3d_remove_colinear_is_the_scan : forall qsqrt (p : Polyline3R) tol,
  let L := pl3_vertices p in (3 <= length L)%nat -> length L <> 3%nat ->
  pl3_vertices (Polyline3D_remove_colinear_vertices qsqrt p tol)
  = hd (mkV3 0 0 0) L :: gscanp V3 (keep3 qsqrt tol) (hd (mkV3 0 0 0) L) (combine (removelast (tl L)) (tl (tl L))) ++ [last L (mkV3 0 0 0)]
  /\ pl3_interp (Polyline3D_remove_colinear_vertices qsqrt p tol) = pl3_interp p.
Proof. exact polyline3_remove_colinear_spec. Qed.
Print Assumptions C16_polyline3d_remove_colinear_is_the_scan.

Theorem C16_polyline_clean_up_tests_agree_in_the_plane : forall pl, frame_ok pl -> forall qsqrt, Proper (Qeq ==> Qeq) qsqrt ->
  (forall x, qsqrt (x * x) == Qabs x) -> forall tol a v n,
  keep3 qsqrt tol (emb pl a) (emb pl v) (emb pl n) = keep2 tol a v n.
Proof. exact keep_tests_agree. Qed.
Print Assumptions C16_polyline_clean_up_tests_agree_in_the_plane.

Theorem C16_polyline_siblings_keep_the_same_vertices : forall pl qsqrt (L : list V2) i tol,
  frame_ok pl -> Proper (Qeq ==> Qeq) qsqrt -> (forall x, qsqrt (x * x) == Qabs x) -> (4 <= length L)%nat ->
  pl3_vertices (Polyline3D_remove_colinear_vertices qsqrt (mkPolyline3 (map (emb pl) L) i) tol)
  = map (emb pl) (pl2_vertices (Polyline2D_remove_colinear_vertices (mkPolyline2 L i) tol)).
Proof. exact polyline_siblings_keep_the_same_vertices. Qed.
Print Assumptions C16_polyline_siblings_keep_the_same_vertices.

(* the conclusion on a concrete chain in a tilted plane (3-4-5 frame), evaluated with the executable root: both siblings drop the two redundant
   vertices and keep the corners *)
(* joined meshes (generated Mesh2D.join_meshes / Mesh3D.join_meshes, any number of meshes): vertices are concatenated, the faces of each
   mesh are shifted by the vertex counts of ALL the meshes before it, every shifted index points at its own vertex, and the 2D and 3D
   routines give the same face lists for siblings (same faces, as many vertices) *)
Theorem C16_joined_mesh_siblings_have_the_same_faces : forall (m2 : list Mesh2R) (m3 : list Mesh3R),
  map (fun m => (length (m2_vertices m), m2_faces m)) m2 = map (fun m => (length (m3_vertices m), m3_faces m)) m3 ->
  m2_faces (Mesh2D_join_meshes m2) = m3_faces (Mesh3D_join_meshes m3).
Proof. exact joined_siblings_have_the_same_faces. Qed.
Print Assumptions C16_joined_mesh_siblings_have_the_same_faces.

Theorem C16_joined_mesh_is_the_shifted_concatenation : forall ms,
  m3_vertices (Mesh3D_join_meshes ms) = concat (map m3_vertices ms) /\
  m3_faces (Mesh3D_join_meshes ms) = shifted_faces V3 0 (parts3 ms).
Proof. exact mesh3_join_spec. Qed.
Print Assumptions C16_joined_mesh_is_the_shifted_concatenation.

Theorem C16_joined_mesh_indices_point_at_their_vertices : forall (pre post : list Mesh3R) (m : Mesh3R) (d : V3) fc i,
  In fc (m3_faces m) -> (0 <= i < py_len (m3_vertices m))%Z ->
  let J := Mesh3D_join_meshes (pre ++ m :: post) in
  let off := py_len (concat (map m3_vertices pre)) in
  In (map (fun j => j + off)%Z fc) (m3_faces J) /\
  nth (Z.to_nat (i + off)) (m3_vertices J) d = nth (Z.to_nat i) (m3_vertices m) d.
Proof. exact joined_index_points_at_its_vertex. Qed.
Print Assumptions C16_joined_mesh_indices_point_at_their_vertices.

(* three meshes: the third one's face is shifted by the vertices of BOTH meshes before it *)
Example C16_join_three_concrete :
  let t := mkMesh3 [mkV3 0 0 0; mkV3 1 0 0; mkV3 0 1 0] [[0; 1; 2]%Z] in
  m3_faces (Mesh3D_join_meshes [t; t; t]) = [[0; 1; 2]; [3; 4; 5]; [6; 7; 8]]%Z.
Proof. vm_compute. reflexivity. Qed.

Example C16_polyline_siblings_concrete :
  let pl := mkPlane (mkV3 0 (3 # 5) (4 # 5)) (mkV3 1 2 3) ((3 # 5) * 2 + (4 # 5) * 3) (mkV3 1 0 0) (mkV3 0 (4 # 5) (-3 # 5)) in
  let L := [mkV2 0 0; mkV2 1 0; mkV2 2 0; mkV2 2 1; mkV2 2 2; mkV2 0 2] in
  frame_ok pl /\
  pl3_vertices (Polyline3D_remove_colinear_vertices qsqrt_exec (mkPolyline3 (map (emb pl) L) false) (1 # 100))
  = map (emb pl) (pl2_vertices (Polyline2D_remove_colinear_vertices (mkPolyline2 L false) (1 # 100))) /\
  length (pl2_vertices (Polyline2D_remove_colinear_vertices (mkPolyline2 L false) (1 # 100))) = 4%nat.
Proof.
  cbv zeta. split; [|split].
  - unfold frame_ok, unit3, dot3, cross3, v3eq. cbn [pl_n pl_x pl_y pl_o pl_k v3x v3y v3z]. repeat split; reflexivity.
  - vm_compute. reflexivity.
  - vm_compute. reflexivity.
Qed.

Example C16_quad_nonvacuous :
  let p0 := mkV2 0 0 in let p1 := mkV2 4 0 in let p2 := mkV2 3 2 in let p3 := mkV2 1 2 in
  0 < tri2 p0 p1 p2 /\ 0 < tri2 p2 p3 p0 /\ quad_centroid2 p0 p1 p2 p3 =2= mkV2 2 (8 # 9).
Proof. vm_compute. repeat split; reflexivity. Qed.

(* Face3D's vertex clean-up (generated Face3D._remove_colinear, used for the boundary and every hole, and by extract_rectangle before
   sub_faces_by_ratio_rectangle) IS Polygon2D.remove_colinear_vertices run on the loop's 2D polygon: for 3D vertices that are the images of
   the 2D ones under any map, it keeps exactly the images of the vertices the 2D routine keeps - same test, same clamp, same seam patch *)
From Coq Require Import List.
From LBG Require Import Base G0_vec G3_poly G4_face G9_clean C15_face.
Theorem C16_face_cleanup_is_the_polygon_cleanup : forall (qsqrt : Q -> Q) (emb : V2 -> V3) (self : Face3R) (p : Polygon2R) (tol : Q),
  pg_vertices p <> nil ->
  Face3D__remove_colinear qsqrt self (map emb (pg_vertices p)) p tol
  = map emb (pg_vertices (Polygon2D_remove_colinear_vertices qsqrt p tol)).
Proof. exact face_remove_colinear_is_the_2d_routine. Qed.
Print Assumptions C16_face_cleanup_is_the_polygon_cleanup.
