(* C06: plane frame, 2D<->3D maps, normalisation.  About gen/G0_vec.v, G1_shapes.v. *)
From LBG Require Import Base QGeom G0_vec G1_shapes.
Open Scope Q_scope.

Definition unit3 (v : V3) : Prop := dot3 v v == 1.

Global Instance dot3_proper : Proper (v3eq ==> v3eq ==> Qeq) dot3.
Proof. intros a b (A1 & A2 & A3) c d (C1 & C2 & C3). unfold dot3. rewrite A1, A2, A3, C1, C2, C3. reflexivity. Qed.
Global Instance cross3_proper : Proper (v3eq ==> v3eq ==> v3eq) cross3.
Proof.
  intros a b (A1 & A2 & A3) c d (C1 & C2 & C3). unfold cross3. repeat split; vred; rewrite ?A1, ?A2, ?A3, ?C1, ?C2, ?C3; reflexivity.
Qed.
Global Instance unit3_proper : Proper (v3eq ==> iff) unit3.
Proof. intros a b E. unfold unit3. rewrite E. tauto. Qed.

(* normalize: with a true root and v <> 0 the result is unit and a positive multiple of v *)
Lemma normalize_unit qsqrt v :
  let m := v3x v * v3x v + v3y v * v3y v + v3z v * v3z v in
  qsqrt m * qsqrt m == m -> ~ m == 0 ->
  unit3 (Vector3D_normalize qsqrt v) /\ Vector3D_normalize qsqrt v =3= smul3 (/ qsqrt m) v.
Proof.
  intros m Hr Hm. unfold Vector3D_normalize, Vector3D_magnitude, Vector3D_op_abs. cbv zeta. fold m.
  assert (Hq : ~ qsqrt m == 0) by (intro E; apply Hm; rewrite <- Hr, E; ring).
  destruct (Qeq_bool (qsqrt m) 0) eqn:E; [apply Qeq_bool_iff in E; tauto|].
  split.
  - unfold unit3, dot3. vred. set (r := qsqrt m) in *.
    transitivity ((v3x v * v3x v + v3y v * v3y v + v3z v * v3z v) / (r * r)); [field; exact Hq|].
    fold m. rewrite Hr. field. exact Hm.
  - unfold smul3; repeat split; vred; field; exact Hq.
Qed.

Lemma normalize_of_unit qsqrt v :
  qsqrt (v3x v * v3x v + v3y v * v3y v + v3z v * v3z v) == 1 -> Vector3D_normalize qsqrt v =3= v.
Proof.
  intros H1. unfold Vector3D_normalize, Vector3D_magnitude, Vector3D_op_abs. cbv zeta.
  destruct (Qeq_bool _ 0) eqn:E.
  - apply Qeq_bool_iff in E. rewrite H1 in E. discriminate.
  - repeat split; vred; rewrite H1; field.
Qed.

Lemma cross_unit n x : unit3 n -> unit3 x -> dot3 n x == 0 -> unit3 (cross3 n x).
Proof.
  unfold unit3, dot3, cross3. intros Hn Hx Hd. vred.
  set (a := v3x n) in *; set (b := v3y n) in *; set (c := v3z n) in *.
  set (d := v3x x) in *; set (e := v3y x) in *; set (f := v3z x) in *.
  transitivity ((a*a + b*b + c*c) * (d*d + e*e + f*f) - (a*d + b*e + c*f) * (a*d + b*e + c*f)); [ring|].
  rewrite Hn, Hx, Hd. ring.
Qed.

Lemma cross_orth_l n x : dot3 (cross3 n x) n == 0.
Proof. unfold dot3, cross3. vred. ring. Qed.
Lemma cross_orth_r n x : dot3 (cross3 n x) x == 0.
Proof. unfold dot3, cross3. vred. ring. Qed.
Lemma cross_back n x : unit3 x -> dot3 n x == 0 -> cross3 x (cross3 n x) =3= n.
Proof.
  unfold unit3, dot3, cross3. intros Hx Hd.
  set (a := v3x n) in *; set (b := v3y n) in *; set (c := v3z n) in *.
  set (d := v3x x) in *; set (e := v3y x) in *; set (f := v3z x) in *.
  repeat split; vred; fold a b c.
  - transitivity (a * (d*d + e*e + f*f) - d * (a*d + b*e + c*f)); [ring| rewrite Hx, Hd; ring].
  - transitivity (b * (d*d + e*e + f*f) - e * (a*d + b*e + c*f)); [ring| rewrite Hx, Hd; ring].
  - transitivity (c * (d*d + e*e + f*f) - f * (a*d + b*e + c*f)); [ring| rewrite Hx, Hd; ring].
Qed.

(* the contract every Plane satisfies *)
Definition frame_ok (p : PlaneR) : Prop :=
  unit3 (pl_n p) /\ unit3 (pl_x p) /\ dot3 (pl_n p) (pl_x p) == 0 /\
  pl_y p =3= cross3 (pl_n p) (pl_x p) /\ pl_k p == dot3 (pl_n p) (pl_o p).

Theorem frame_orthonormal p : frame_ok p ->
  unit3 (pl_y p) /\ dot3 (pl_y p) (pl_n p) == 0 /\ dot3 (pl_y p) (pl_x p) == 0 /\
  cross3 (pl_x p) (pl_y p) =3= pl_n p.
Proof.
  intros (Hn & Hx & Hd & Y & _). rewrite Y.
  repeat split; try apply (cross_unit _ _ Hn Hx Hd); try apply cross_orth_l; try apply cross_orth_r;
  apply (cross_back _ _ Hx Hd).
Qed.

(* Plane.__init__(n, o) for a unit input normal (the runtime's sqrt is assumed exact on the radicands that occur) *)
Theorem plane_init_frame qsqrt n o :
  Proper (Qeq ==> Qeq) qsqrt -> unit3 n -> qsqrt 1 == 1 ->
  (let m := v3y n * v3y n + v3x n * v3x n in qsqrt m * qsqrt m == m) ->
  frame_ok (Plane_init qsqrt n o).
Proof.
  intros P Hn H1 H2. unfold Plane_init. cbv zeta.
  assert (Hq1 : qsqrt (v3x n * v3x n + v3y n * v3y n + v3z n * v3z n) == 1).
  { unfold unit3, dot3 in Hn. rewrite Hn. exact H1. }
  pose proof (normalize_of_unit qsqrt n Hq1) as En.
  set (nn := Vector3D_normalize qsqrt n) in *.
  assert (Hnn : unit3 nn) by (rewrite En; exact Hn).
  unfold frame_ok. vred.
  destruct (Qeq_bool (v3x nn) 0 && Qeq_bool (v3y nn) 0) eqn:Ez.
  - apply andb_true_iff in Ez. destruct Ez as [Z1 Z2]. apply Qeq_bool_iff in Z1, Z2.
    repeat split; try exact Hnn; unfold unit3, dot3, Vector3D_cross, Vector3D_dot, cross3; vred; rewrite ?Z1, ?Z2; ring.
  - destruct En as (E1 & E2 & E3).
    set (w := mkV3 (v3y nn) (- v3x nn) 0).
    set (m := v3x w * v3x w + v3y w * v3y w + v3z w * v3z w).
    assert (Em : m == v3y n * v3y n + v3x n * v3x n) by (unfold m, w; vred; rewrite E1, E2; ring).
    assert (Hr : qsqrt m * qsqrt m == m) by (rewrite Em; exact H2).
    assert (Hm : ~ m == 0).
    { intro K. unfold m, w in K. vred.
      assert (0 <= v3x nn * v3x nn) by apply Qsq_nonneg. assert (0 <= v3y nn * v3y nn) by apply Qsq_nonneg.
      assert (X : v3x nn * v3x nn == 0) by lra. assert (Y : v3y nn * v3y nn == 0) by lra.
      apply andb_false_iff in Ez.
      destruct Ez as [Ez|Ez]; apply Qeq_bool_false_iff in Ez; apply Ez;
      [destruct (Qmult_integral _ _ X)| destruct (Qmult_integral _ _ Y)]; assumption. }
    destruct (normalize_unit qsqrt w Hr Hm) as [Ux Px]. fold m in Px.
    set (xx := Vector3D_normalize qsqrt w) in *.
    repeat split; try exact Hnn; try exact Ux.
    + rewrite Px. unfold dot3, smul3, w. vred. ring.
    + unfold Vector3D_cross, cross3. vred. ring.
Qed.

(* 2D <-> 3D maps through a frame *)
Theorem to2d_to3d p q : frame_ok p -> Plane_xyz_to_xy p (Plane_xy_to_xyz p q) =2= q.
Proof.
  intros F. destruct (frame_orthonormal p F) as (Uy & Yn & Yx & _). destruct F as (Hn & Hx & Hd & Y & _).
  unfold Plane_xyz_to_xy, Plane_xy_to_xyz, Vector3D_dot. cbv zeta.
  unfold unit3, dot3 in *.
  set (xa := v3x (pl_x p)) in *; set (xb := v3y (pl_x p)) in *; set (xc := v3z (pl_x p)) in *.
  set (ya := v3x (pl_y p)) in *; set (yb := v3y (pl_y p)) in *; set (yc := v3z (pl_y p)) in *.
  split; vred.
  - transitivity (v2x q * (xa*xa + xb*xb + xc*xc) + v2y q * (ya*xa + yb*xb + yc*xc)); [ring| rewrite Hx, Yx; ring].
  - transitivity (v2x q * (ya*xa + yb*xb + yc*xc) + v2y q * (ya*ya + yb*yb + yc*yc)); [ring| rewrite Uy, Yx; ring].
Qed.

(* a point of the plane (n.(p-o) == 0) maps to 2D and back onto itself *)
Theorem to3d_to2d p pt : frame_ok p -> dot3 (pl_n p) (sub3 pt (pl_o p)) == 0 ->
  Plane_xy_to_xyz p (Plane_xyz_to_xy p pt) =3= pt.
Proof.
  intros F Hp. destruct (frame_orthonormal p F) as (Uy & Yn & Yx & XY). destruct F as (Hn & Hx & Hd & Y & _).
  (* d = (d.x) x + (d.y) y + (d.n) n  for an orthonormal frame; prove via n = x x y *)
  unfold Plane_xyz_to_xy, Plane_xy_to_xyz, Vector3D_dot. cbv zeta. vred.
  destruct XY as (N1 & N2 & N3). unfold cross3 in N1, N2, N3. vred.
  unfold unit3, dot3, sub3 in *. vred.
  set (xa := v3x (pl_x p)) in *; set (xb := v3y (pl_x p)) in *; set (xc := v3z (pl_x p)) in *.
  set (ya := v3x (pl_y p)) in *; set (yb := v3y (pl_y p)) in *; set (yc := v3z (pl_y p)) in *.
  set (na := v3x (pl_n p)) in *; set (nb := v3y (pl_n p)) in *; set (nc := v3z (pl_n p)) in *.
  set (da := v3x pt - v3x (pl_o p)) in *; set (db := v3y pt - v3y (pl_o p)) in *; set (dc := v3z pt - v3z (pl_o p)) in *.
  (* Lagrange-type identity: (d.x) x + (d.y) y + (d.(x x y)) (x x y) = d  when x,y orthonormal *)
  assert (I1 : xa * (xa*da + xb*db + xc*dc) + ya * (ya*da + yb*db + yc*dc) + na * (na*da + nb*db + nc*dc) == da).
  { rewrite <- N1, <- N2, <- N3.
    transitivity (da * ((xa*xa + xb*xb + xc*xc) * (ya*ya + yb*yb + yc*yc) - (ya*xa + yb*xb + yc*xc) * (ya*xa + yb*xb + yc*xc))
       + (xa*da + xb*db + xc*dc) * xa * (1 - (ya*ya + yb*yb + yc*yc))
       + (ya*da + yb*db + yc*dc) * ya * (1 - (xa*xa + xb*xb + xc*xc))
       + ((xa*da + xb*db + xc*dc) * ya + (ya*da + yb*db + yc*dc) * xa) * (ya*xa + yb*xb + yc*xc)); [ring|].
    rewrite Hx, Uy, Yx. ring. }
  assert (I2 : xb * (xa*da + xb*db + xc*dc) + yb * (ya*da + yb*db + yc*dc) + nb * (na*da + nb*db + nc*dc) == db).
  { rewrite <- N1, <- N2, <- N3.
    transitivity (db * ((xa*xa + xb*xb + xc*xc) * (ya*ya + yb*yb + yc*yc) - (ya*xa + yb*xb + yc*xc) * (ya*xa + yb*xb + yc*xc))
       + (xa*da + xb*db + xc*dc) * xb * (1 - (ya*ya + yb*yb + yc*yc))
       + (ya*da + yb*db + yc*dc) * yb * (1 - (xa*xa + xb*xb + xc*xc))
       + ((xa*da + xb*db + xc*dc) * yb + (ya*da + yb*db + yc*dc) * xb) * (ya*xa + yb*xb + yc*xc)); [ring|].
    rewrite Hx, Uy, Yx. ring. }
  assert (I3 : xc * (xa*da + xb*db + xc*dc) + yc * (ya*da + yb*db + yc*dc) + nc * (na*da + nb*db + nc*dc) == dc).
  { rewrite <- N1, <- N2, <- N3.
    transitivity (dc * ((xa*xa + xb*xb + xc*xc) * (ya*ya + yb*yb + yc*yc) - (ya*xa + yb*xb + yc*xc) * (ya*xa + yb*xb + yc*xc))
       + (xa*da + xb*db + xc*dc) * xc * (1 - (ya*ya + yb*yb + yc*yc))
       + (ya*da + yb*db + yc*dc) * yc * (1 - (xa*xa + xb*xb + xc*xc))
       + ((xa*da + xb*db + xc*dc) * yc + (ya*da + yb*db + yc*dc) * xc) * (ya*xa + yb*xb + yc*xc)); [ring|].
    rewrite Hx, Uy, Yx. ring. }
  rewrite Hp in I1, I2, I3.
  repeat split; vred.
  - transitivity (v3x (pl_o p) + (xa * (xa*da + xb*db + xc*dc) + ya * (ya*da + yb*db + yc*dc) + na * 0)); [ring| rewrite I1; unfold da; ring].
  - transitivity (v3y (pl_o p) + (xb * (xa*da + xb*db + xc*dc) + yb * (ya*da + yb*db + yc*dc) + nb * 0)); [ring| rewrite I2; unfold db; ring].
  - transitivity (v3z (pl_o p) + (xc * (xa*da + xb*db + xc*dc) + yc * (ya*da + yb*db + yc*dc) + nc * 0)); [ring| rewrite I3; unfold dc; ring].
Qed.

(* every image of a 2D point lies in the plane *)
Theorem to3d_on_plane p q : frame_ok p -> dot3 (pl_n p) (sub3 (Plane_xy_to_xyz p q) (pl_o p)) == 0.
Proof.
  intros F. destruct (frame_orthonormal p F) as (Uy & Yn & Yx & _). destruct F as (Hn & Hx & Hd & Y & _).
  unfold Plane_xy_to_xyz. cbv zeta. unfold dot3, sub3 in *. vred.
  set (xa := v3x (pl_x p)) in *; set (xb := v3y (pl_x p)) in *; set (xc := v3z (pl_x p)) in *.
  set (ya := v3x (pl_y p)) in *; set (yb := v3y (pl_y p)) in *; set (yc := v3z (pl_y p)) in *.
  set (na := v3x (pl_n p)) in *; set (nb := v3y (pl_n p)) in *; set (nc := v3z (pl_n p)) in *.
  transitivity (v2x q * (na*xa + nb*xb + nc*xc) + v2y q * (ya*na + yb*nb + yc*nc)); [ring| rewrite Hd, Yn; ring].
Qed.

(* the plane map is an isometry of the plane: 2D determinants are 3D triple products with n *)
Theorem to3d_preserves_det p a b c : frame_ok p ->
  dot3 (pl_n p) (cross3 (sub3 (Plane_xy_to_xyz p b) (Plane_xy_to_xyz p a)) (sub3 (Plane_xy_to_xyz p c) (Plane_xy_to_xyz p a)))
  == det2 (sub2 b a) (sub2 c a).
Proof.
  intros F. destruct (frame_orthonormal p F) as (Uy & Yn & Yx & XY). destruct F as (Hn & Hx & Hd & Y & _).
  destruct XY as (N1 & N2 & N3). unfold cross3 in N1, N2, N3. vred.
  unfold Plane_xy_to_xyz. cbv zeta. unfold unit3, dot3, cross3, sub3, det2, sub2 in *. vred.
  set (xa := v3x (pl_x p)) in *; set (xb := v3y (pl_x p)) in *; set (xc := v3z (pl_x p)) in *.
  set (ya := v3x (pl_y p)) in *; set (yb := v3y (pl_y p)) in *; set (yc := v3z (pl_y p)) in *.
  set (na := v3x (pl_n p)) in *; set (nb := v3y (pl_n p)) in *; set (nc := v3z (pl_n p)) in *.
  set (D := (v2x b - v2x a) * (v2y c - v2y a) - (v2y b - v2y a) * (v2x c - v2x a)).
  transitivity (D * (na * (xb*yc - xc*yb) + nb * (xc*ya - xa*yc) + nc * (xa*yb - xb*ya))); [unfold D; ring|].
  rewrite N1, N2, N3, Hn. ring.
Qed.
