(* Cache.v -- generic model of a memoised derived value carried across copying / transforming
   operations, and the induction that no history of operations can make it stale. *)
From Coq Require Import List QArith.
Import ListNotations.

Section OneSlot.
Variable D : Type.                 (* defining data of the object *)
Variable V : Type.                 (* type of the derived value *)
Variable fresh : D -> V.           (* what a freshly constructed object computes *)
Variable veq : V -> V -> Prop.     (* equality of values (up to ==) *)
Hypothesis veq_refl : forall v, veq v v.
Hypothesis veq_trans : forall a b c, veq a b -> veq b c -> veq a c.

(* one step of a history: the object's data changes by [f]; the memo slot is rewritten by [g]
   (None = emptied, i.e. recomputed on demand) *)
Record step := { sf : D -> D; sg : option V -> option V }.

(* a step is SOUND when its slot action agrees with how the fresh value changes *)
Definition sound (s : step) : Prop :=
  forall d old, (forall v, old = Some v -> veq v (fresh d)) ->
                forall v', sg s old = Some v' -> veq v' (fresh (sf s d)).

(* reading the property: fills an empty slot with the fresh value, leaves the data alone *)
Definition read_step : step := {| sf := fun d => d; sg := fun o => match o with None => None | Some v => Some v end |}.

Definition coherent (d : D) (slot : option V) : Prop := forall v, slot = Some v -> veq v (fresh d).

Definition run (h : list step) (st : D * option V) : D * option V :=
  fold_left (fun st s => (sf s (fst st), sg s (snd st))) h st.

(* a read returns the cached value if present, else the fresh one: either way the fresh value *)
Definition observe (st : D * option V) : V := match snd st with Some v => v | None => fresh (fst st) end.

Theorem history_coherent (h : list step) : Forall sound h ->
  forall d slot, coherent d slot -> coherent (fst (run h (d, slot))) (snd (run h (d, slot))).
Proof.
  induction h as [|s r IH]; intros Hs d slot Hc; [exact Hc|].
  inversion Hs as [|? ? S1 S2]; subst. cbn [run fold_left fst snd].
  apply (IH S2). intros v' Hv'. exact (S1 d slot Hc v' Hv').
Qed.

Theorem observed_value_is_fresh (h : list step) : Forall sound h ->
  forall d, veq (observe (run h (d, None))) (fresh (fst (run h (d, None)))).
Proof.
  intros Hs d. pose proof (history_coherent h Hs d None) as H.
  unfold observe. destruct (snd (run h (d, None))) eqn:E; [|apply veq_refl].
  apply H; [intros v' K; discriminate| reflexivity].
Qed.

(* emptying the slot is always sound; so is filling it with the fresh value *)
Lemma reset_sound f : sound {| sf := f; sg := fun _ => None |}.
Proof. intros d old _ v' H; discriminate. Qed.
Lemma fill_sound : sound {| sf := fun d => d; sg := fun o => match o with Some v => Some v | None => None end |}.
Proof. intros d old H v' E. destruct old; [injection E as <-; apply H; reflexivity| discriminate]. Qed.

(* copying is sound exactly when the operation leaves the fresh value unchanged *)
Lemma copy_sound f : (forall d, veq (fresh d) (fresh (f d))) -> sound {| sf := f; sg := fun o => o |}.
Proof. intros L d old H v' E. cbn in E. eapply veq_trans; [apply H; exact E| apply L]. Qed.

(* a mapped copy (negation, multiplication by k^n) is sound when the fresh value changes the same way *)
Lemma map_sound f (m : V -> V) : (forall a b, veq a b -> veq (m a) (m b)) ->
  (forall d, veq (m (fresh d)) (fresh (f d))) -> sound {| sf := f; sg := option_map m |}.
Proof.
  intros Pm L d old H v' E. destruct old as [v|]; cbn in E; [|discriminate]. injection E as <-.
  eapply veq_trans; [apply Pm; apply H; reflexivity| apply L].
Qed.
End OneSlot.
