(* Volume.v -- hand model of Polyface3D.volume (tied to the implementation by the correspondence in C07/C01).
   The library sums  face[0] . normal * area / 3  over the faces; normal * area is half the area vector of the face (Newell's
   vector, holes wound against the boundary add their own), so  6 * volume = sum over faces of  p0 . area_vector.
   Proved here for every closed oriented surface (each directed edge matched by the opposite one):
   the value does not depend on where the solid sits, is multiplied by det M under any linear map M (so by k^3 under a uniform
   scale, unchanged by rotations, negated by a reflection unless the faces are flipped), is additive over solids glued along
   coincident opposite faces, and is the determinant for a tetrahedron - hence equals the enclosed volume of every solid that can be
   cut into tetrahedra. *)
From LBG Require Import Base QGeom ListCyc.
From Coq Require Import Permutation.
Open Scope Q_scope.

Definition zero3 : V3 := mkV3 0 0 0.
Definition area_vec (l : list V3) : V3 :=
  mkV3 (cyc_sum (fun a b => v3x (cross3 a b)) l) (cyc_sum (fun a b => v3y (cross3 a b)) l)
       (cyc_sum (fun a b => v3z (cross3 a b)) l).

(* a face is its boundary loop followed by its hole loops *)
Definition face := list (list V3).
Fixpoint qs (l : list Q) : Q := match l with [] => 0 | x :: r => x + qs r end.
Fixpoint vsum (l : list V3) : V3 := match l with [] => zero3 | x :: r => add3 x (vsum r) end.
Definition face_vec (f : face) : V3 := vsum (map area_vec f).
Definition face_ref (f : face) : V3 := hd zero3 (hd [] f).
Definition vol6 (fs : list face) : Q := qs (map (fun f => dot3 (face_ref f) (face_vec f)) fs).
Definition volume (fs : list face) : Q := vol6 fs / 6.

(* directed edges *)
Fixpoint path_pairs {A} (l : list A) : list (A * A) :=
  match l with [] => [] | x :: r => match r with [] => [] | y :: _ => (x, y) :: path_pairs r end end.
Definition loop_edges {A} (l : list A) : list (A * A) :=
  match l with [] => [] | x :: _ => (last l x, x) :: path_pairs l end.
Definition dedges (fs : list face) : list (V3 * V3) := flat_map (fun f => flat_map loop_edges f) fs.
Definition swap {A} (p : A * A) : A * A := (snd p, fst p).
(* closed and consistently oriented: the directed edges, with multiplicity, are exactly their own opposites *)
Definition closed (fs : list face) : Prop := Permutation (dedges fs) (map swap (dedges fs)).

Definition tmap (T : V3 -> V3) (fs : list face) : list face := map (map (map T)) fs.
Definition lin (m : V3 * V3 * V3) (p : V3) : V3 :=
  let '(r1, r2, r3) := m in mkV3 (dot3 r1 p) (dot3 r2 p) (dot3 r3 p).
Definition det3 (a b c : V3) : Q := dot3 a (cross3 b c).
Definition tetra (a b c d : V3) : list face := [[[a; c; b]]; [[a; b; d]]; [[b; c; d]]; [[c; a; d]]].

Lemma qs_app l r : qs (l ++ r) == qs l + qs r.
Proof. induction l as [|x l IH]; cbn [app qs]; [ring| rewrite IH; ring]. Qed.

Lemma path_sum_pairs {A} (f : A -> A -> Q) l : path_sum f l == qs (map (fun p => f (fst p) (snd p)) (path_pairs l)).
Proof.
  induction l as [|x r IH]; [reflexivity|]. destruct r as [|y r]; [reflexivity|].
  rewrite path_sum_cons. cbn [path_pairs map qs fst snd]. rewrite IH. reflexivity.
Qed.

Lemma cyc_sum_pairs {A} (f : A -> A -> Q) l : cyc_sum f l == qs (map (fun p => f (fst p) (snd p)) (loop_edges l)).
Proof.
  destruct l as [|x r]; [reflexivity|]. unfold cyc_sum, loop_edges. cbn [map qs fst snd]. rewrite path_sum_pairs. reflexivity.
Qed.

Lemma qs_perm l l' : Permutation l l' -> qs l == qs l'.
Proof. induction 1; cbn [qs]; try lra. Qed.

(* an antisymmetric edge function sums to zero over a closed surface *)
Lemma closed_sum_zero (g : V3 -> V3 -> Q) E : (forall a b, g b a == - g a b) ->
  Permutation E (map swap E) -> qs (map (fun p => g (fst p) (snd p)) E) == 0.
Proof.
  intros AS P.
  assert (H : qs (map (fun p => g (fst p) (snd p)) E) == qs (map (fun p => g (fst p) (snd p)) (map swap E)))
    by (apply qs_perm, Permutation_map, P).
  rewrite map_map in H.
  assert (N : forall l, qs (map (fun x => g (fst (swap x)) (snd (swap x))) l) == - qs (map (fun p => g (fst p) (snd p)) l)).
  { induction l as [|p l IH]; cbn [map qs]; [ring|]. rewrite IH. unfold swap. cbn [fst snd]. rewrite AS. ring. }
  rewrite N in H. lra.
Qed.

Lemma vsum_x l : v3x (vsum l) == qs (map v3x l).
Proof. induction l as [|x l IH]; cbn [vsum map qs]; [reflexivity|]. unfold add3. cbn [v3x]. rewrite IH. reflexivity. Qed.
Lemma vsum_y l : v3y (vsum l) == qs (map v3y l).
Proof. induction l as [|x l IH]; cbn [vsum map qs]; [reflexivity|]. unfold add3. cbn [v3y]. rewrite IH. reflexivity. Qed.
Lemma vsum_z l : v3z (vsum l) == qs (map v3z l).
Proof. induction l as [|x l IH]; cbn [vsum map qs]; [reflexivity|]. unfold add3. cbn [v3z]. rewrite IH. reflexivity. Qed.

(* q . (area vector) as one sum over the edges *)
Lemma dot_area_vec q l : dot3 q (area_vec l) == cyc_sum (fun a b => dot3 q (cross3 a b)) l.
Proof.
  unfold area_vec. unfold dot3 at 1. cbn [v3x v3y v3z].
  rewrite <- !cyc_sum_scale, <- !cyc_sum_plus. apply cyc_sum_ext. intros a b. unfold dot3. reflexivity.
Qed.

Lemma dot_vsum q l : dot3 q (vsum l) == qs (map (dot3 q) l).
Proof.
  induction l as [|x l IH]; cbn [vsum map qs]; [unfold dot3, zero3; cbn [v3x v3y v3z]; ring|].
  rewrite <- IH. unfold dot3, add3. cbn [v3x v3y v3z]. ring.
Qed.

Lemma dot_face_vec q (f : face) : dot3 q (face_vec f) == qs (map (fun p => dot3 q (cross3 (fst p) (snd p))) (flat_map loop_edges f)).
Proof.
  unfold face_vec. rewrite dot_vsum, map_map.
  induction f as [|l f IH]; [reflexivity|]. cbn [map qs flat_map]. rewrite map_app, qs_app, <- IH.
  rewrite dot_area_vec, cyc_sum_pairs. reflexivity.
Qed.

(* the sum of all area vectors of a closed surface vanishes *)
Lemma closed_total_vec q fs : closed fs -> qs (map (fun f => dot3 q (face_vec f)) fs) == 0.
Proof.
  intros C.
  assert (E : qs (map (fun f => dot3 q (face_vec f)) fs) == qs (map (fun p => dot3 q (cross3 (fst p) (snd p))) (dedges fs))).
  { clear C. unfold dedges. induction fs as [|f fs IH]; [reflexivity|]. cbn [map qs flat_map]. rewrite map_app, qs_app, <- IH, dot_face_vec. reflexivity. }
  rewrite E. apply (closed_sum_zero (fun a b => dot3 q (cross3 a b))); [|exact C].
  intros a b. unfold dot3, cross3. cbn [v3x v3y v3z]. ring.
Qed.

(* translation: each loop's area vector is unchanged *)
Lemma area_vec_translate t l : area_vec (map (fun p => add3 p t) l) =3= area_vec l.
Proof.
  unfold area_vec, v3eq. cbn [v3x v3y v3z]. rewrite !cyc_sum_map.
  repeat split.
  - rewrite (cyc_sum_ext _ (fun a b => v3x (cross3 a b) + ((fun v => v3x (cross3 t v)) b - (fun v => v3x (cross3 t v)) a))).
    + rewrite cyc_sum_plus, cyc_sum_telescope. ring.
    + intros a b. unfold cross3, add3. cbn [v3x v3y v3z]. ring.
  - rewrite (cyc_sum_ext _ (fun a b => v3y (cross3 a b) + ((fun v => v3y (cross3 t v)) b - (fun v => v3y (cross3 t v)) a))).
    + rewrite cyc_sum_plus, cyc_sum_telescope. ring.
    + intros a b. unfold cross3, add3. cbn [v3x v3y v3z]. ring.
  - rewrite (cyc_sum_ext _ (fun a b => v3z (cross3 a b) + ((fun v => v3z (cross3 t v)) b - (fun v => v3z (cross3 t v)) a))).
    + rewrite cyc_sum_plus, cyc_sum_telescope. ring.
    + intros a b. unfold cross3, add3. cbn [v3x v3y v3z]. ring.
Qed.

Global Instance dot3_proper : Proper (v3eq ==> v3eq ==> Qeq) dot3.
Proof. intros a a' (A1 & A2 & A3) b b' (B1 & B2 & B3). unfold dot3. rewrite A1, A2, A3, B1, B2, B3. reflexivity. Qed.
Global Instance add3_proper : Proper (v3eq ==> v3eq ==> v3eq) add3.
Proof. intros a a' (A1 & A2 & A3) b b' (B1 & B2 & B3). unfold add3, v3eq. cbn [v3x v3y v3z]. rewrite A1, A2, A3, B1, B2, B3. repeat split; reflexivity. Qed.

Lemma face_vec_translate t (f : face) : face_vec (map (map (fun p => add3 p t)) f) =3= face_vec f.
Proof.
  unfold face_vec. induction f as [|l f IH]; cbn [map vsum]; [apply v3eq_refl|].
  rewrite IH, area_vec_translate. apply v3eq_refl.
Qed.

Definition nonempty (fs : list face) : Prop := Forall (fun f : face => exists p l r, f = (p :: l) :: r) fs.

Theorem vol6_translate t fs : nonempty fs -> closed fs -> vol6 (tmap (fun p => add3 p t) fs) == vol6 fs.
Proof.
  intros NE C. pose proof (closed_total_vec t fs C) as Z.
  assert (E : vol6 (tmap (fun p => add3 p t) fs) == vol6 fs + qs (map (fun f => dot3 t (face_vec f)) fs)).
  { clear C Z. unfold vol6, tmap. induction NE as [|f fs Hf _ IH]; [cbn; ring|].
    cbn [map qs]. rewrite IH. rewrite face_vec_translate. destruct Hf as (p & l & r & ->).
    unfold face_ref. cbn [map hd]. unfold dot3, add3. cbn [v3x v3y v3z]. ring. }
  rewrite E, Z. ring.
Qed.

(* the reference point may be any point of the face's plane *)
Theorem vol6_any_reference_point fs (refs : face -> V3) :
  (forall f, In f fs -> dot3 (sub3 (refs f) (face_ref f)) (face_vec f) == 0) ->
  qs (map (fun f => dot3 (refs f) (face_vec f)) fs) == vol6 fs.
Proof.
  unfold vol6. induction fs as [|f fs IH]; intros H; [reflexivity|]. cbn [map qs].
  rewrite IH by (intros g G; apply H; right; exact G).
  pose proof (H f (or_introl eq_refl)) as H0. unfold dot3, sub3 in *. cbn [v3x v3y v3z] in H0. lra.
Qed.

(* linear maps *)
Lemma area_vec_lin_dot m q l :
  dot3 (lin m q) (area_vec (map (lin m) l)) == (let '(r1, r2, r3) := m in det3 r1 r2 r3) * dot3 q (area_vec l).
Proof.
  rewrite !dot_area_vec, cyc_sum_map, <- cyc_sum_scale. apply cyc_sum_ext. intros a b.
  destruct m as [[r1 r2] r3]. unfold lin, det3, dot3, cross3. cbn [v3x v3y v3z]. ring.
Qed.

Lemma face_vec_lin_dot m q (f : face) :
  dot3 (lin m q) (face_vec (map (map (lin m)) f)) == (let '(r1, r2, r3) := m in det3 r1 r2 r3) * dot3 q (face_vec f).
Proof.
  unfold face_vec. rewrite !dot_vsum, !map_map.
  induction f as [|l f IH]; cbn [map qs]; [ring|]. rewrite IH, area_vec_lin_dot. ring.
Qed.

Lemma lin_zero m : lin m zero3 =3= zero3.
Proof. destruct m as [[r1 r2] r3]. unfold lin, zero3, dot3, v3eq. cbn [v3x v3y v3z]. repeat split; ring. Qed.

Theorem vol6_linear m fs : vol6 (tmap (lin m) fs) == (let '(r1, r2, r3) := m in det3 r1 r2 r3) * vol6 fs.
Proof.
  unfold vol6, tmap. induction fs as [|f fs IH]; cbn [map qs]; [ring|]. rewrite IH.
  assert (R : dot3 (face_ref (map (map (lin m)) f)) (face_vec (map (map (lin m)) f))
              == dot3 (lin m (face_ref f)) (face_vec (map (map (lin m)) f))).
  { unfold face_ref. destruct f as [|l f]; cbn [map hd].
    - rewrite lin_zero. reflexivity.
    - destruct l as [|p l]; cbn [map hd]; [rewrite lin_zero|]; reflexivity. }
  rewrite R, face_vec_lin_dot. ring.
Qed.

Definition scale_m (k : Q) : V3 * V3 * V3 := (mkV3 k 0 0, mkV3 0 k 0, mkV3 0 0 k).
Theorem vol6_scale k fs : vol6 (tmap (lin (scale_m k)) fs) == k * k * k * vol6 fs.
Proof. rewrite vol6_linear. unfold scale_m, det3, dot3, cross3. cbn [v3x v3y v3z]. ring. Qed.

(* flipping every loop negates the area vectors *)
Lemma area_vec_rev l : area_vec (rev l) =3= smul3 (-1) (area_vec l).
Proof.
  unfold area_vec, smul3, v3eq. cbn [v3x v3y v3z]. rewrite !cyc_sum_rev.
  repeat split; rewrite <- cyc_sum_scale; apply cyc_sum_ext; intros a b; unfold cross3; cbn [v3x v3y v3z]; ring.
Qed.

Lemma face_vec_rev (f : face) : face_vec (map (@rev V3) f) =3= smul3 (-1) (face_vec f).
Proof.
  unfold face_vec. induction f as [|l f IH]; cbn [map vsum].
  - unfold smul3, zero3, v3eq. cbn [v3x v3y v3z]. repeat split; ring.
  - rewrite IH, area_vec_rev. unfold smul3, add3, v3eq. cbn [v3x v3y v3z]. repeat split; ring.
Qed.

(* a pair of coincident opposite planar faces contributes nothing: solids glued along a face add up *)
Theorem vol6_glue (f : face) fs :
  dot3 (sub3 (face_ref (map (@rev V3) f)) (face_ref f)) (face_vec f) == 0 ->
  vol6 (f :: map (@rev V3) f :: fs) == vol6 fs.
Proof.
  intros PL. unfold vol6. cbn [map qs]. rewrite face_vec_rev.
  unfold dot3, sub3, smul3 in *. cbn [v3x v3y v3z] in *. lra.
Qed.

Theorem vol6_app fs gs : vol6 (fs ++ gs) == vol6 fs + vol6 gs.
Proof. unfold vol6. rewrite map_app, qs_app. reflexivity. Qed.

Theorem vol6_perm fs gs : Permutation fs gs -> vol6 fs == vol6 gs.
Proof. intros P. unfold vol6. apply qs_perm, Permutation_map, P. Qed.

(* the tetrahedron: six times its signed volume *)
Theorem vol6_tetra a b c d : vol6 (tetra a b c d) == det3 (sub3 b a) (sub3 c a) (sub3 d a).
Proof.
  cbv beta iota zeta delta [vol6 tetra face_ref face_vec area_vec cyc_sum det3 dot3 cross3 sub3 add3 zero3 map qs hd vsum last path_sum
                            v3x v3y v3z]. ring.
Qed.

Ltac find_split x l k := match l with
  | x :: ?t => k (@nil (V3 * V3)) t
  | ?y :: ?t => find_split x t ltac:(fun pre post => k (y :: pre) post)
  end.
Ltac perm_by_matching := repeat match goal with
  | |- Permutation [] [] => apply perm_nil
  | |- Permutation (?x :: ?l) ?r =>
      find_split x r ltac:(fun pre post => change r with (pre ++ x :: post); apply Permutation_cons_app; cbn [app])
  end.

Lemma tetra_closed a b c d : closed (tetra a b c d).
Proof.
  unfold closed, dedges, tetra. cbn [flat_map loop_edges path_pairs last app map]. unfold swap. cbn [fst snd]. perm_by_matching.
Qed.

Lemma tetra_nonempty a b c d : nonempty (tetra a b c d).
Proof. unfold nonempty, tetra. repeat constructor; eauto. Qed.

(* every solid assembled from tetrahedra: the formula gives the sum of the tetrahedra *)
Inductive assembled : list face -> Q -> Prop :=
| as_tetra a b c d : assembled (tetra a b c d) (det3 (sub3 b a) (sub3 c a) (sub3 d a))
| as_union fs gs v w : assembled fs v -> assembled gs w -> assembled (fs ++ gs) (v + w)
| as_perm fs gs v : Permutation fs gs -> assembled fs v -> assembled gs v
| as_cancel (f : face) fs v : dot3 (sub3 (face_ref (map (@rev V3) f)) (face_ref f)) (face_vec f) == 0 ->
    assembled (f :: map (@rev V3) f :: fs) v -> assembled fs v
| as_eq fs v w : v == w -> assembled fs v -> assembled fs w.

Theorem assembled_volume fs v : assembled fs v -> vol6 fs == v.
Proof.
  induction 1 as [a b c d|fs gs v w _ IH1 _ IH2|fs gs v P _ IH|f fs v PL _ IH|fs v w E _ IH].
  - apply vol6_tetra.
  - rewrite vol6_app, IH1, IH2. reflexivity.
  - rewrite <- (vol6_perm _ _ P). exact IH.
  - rewrite <- (vol6_glue f fs PL). exact IH.
  - rewrite IH. exact E.
Qed.

(* non-vacuity: a unit cube cut out of six quads is closed, and the formula gives 1 *)
Definition P (x y z : Z) : V3 := mkV3 (inject_Z x) (inject_Z y) (inject_Z z).
Definition cube : list face :=
  [ [[P 0 0 0; P 0 1 0; P 1 1 0; P 1 0 0]]; [[P 0 0 1; P 1 0 1; P 1 1 1; P 0 1 1]];
    [[P 0 0 0; P 1 0 0; P 1 0 1; P 0 0 1]]; [[P 0 1 0; P 0 1 1; P 1 1 1; P 1 1 0]];
    [[P 0 0 0; P 0 0 1; P 0 1 1; P 0 1 0]]; [[P 1 0 0; P 1 1 0; P 1 1 1; P 1 0 1]] ].
Example cube_closed_volume_one : closed cube /\ nonempty cube /\ volume cube == 1.
Proof.
  split; [|split].
  - unfold closed, dedges, cube. cbn [flat_map loop_edges path_pairs last app map]. unfold swap. cbn [fst snd]. perm_by_matching.
  - unfold nonempty, cube. repeat constructor; eauto.
  - vm_compute. reflexivity.
Qed.
