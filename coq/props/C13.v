(* C13 -- serialisation fields, class guard of ==, and which classes compare raw coordinates.
   PARTIAL (Python object protocol): bitwise round trips through dict / JSON / dispatcher / arrays and
   == / hash behaviour of real objects are validated by the harness. *)
From Coq Require Import String List Bool ZArith.
From LBG Require Import K_keys C13_keys.
Import ListNotations.
Open Scope string_scope.

Theorem C13_dict_roundtrip_fields : forallb fields_ok key_table = true.
Proof. exact dict_roundtrip_fields. Qed.
Print Assumptions C13_dict_roundtrip_fields.

Theorem C13_dispatcher_registry_complete :
  forallb (fun r => existsb (fun e => String.eqb (fst e) (k_type_tag r) && String.eqb (snd e) (k_class r)) dispatcher_registry) key_table = true /\
  length dispatcher_registry = length key_table /\ length key_table = 21%nat.
Proof. exact dispatcher_registry_complete. Qed.
Print Assumptions C13_dispatcher_registry_complete.

Theorem C13_eq_respects_class : forallb eq_guard_ok key_table = true.
Proof. exact eq_respects_class. Qed.
Print Assumptions C13_eq_respects_class.

Theorem C13_keys_recognised : forallb no_unknown key_table = true.
Proof. exact keys_recognised. Qed.
Print Assumptions C13_keys_recognised.

(* all 21 classes key equality and hash on their defining values (no class hashes its coordinates into the key any more) *)
Theorem C13_raw_key_classes : map k_class (filter raw_only key_table) = map k_class key_table.
Proof. exact raw_key_classes. Qed.
Print Assumptions C13_raw_key_classes.

Theorem C13_hashed_key_classes : map k_class (filter (fun r => negb (raw_only r)) key_table) = [].
Proof. exact hashed_key_classes. Qed.
Print Assumptions C13_hashed_key_classes.

Theorem C13_raw_key_injective : forall a b, raw_key a = raw_key b <-> a = b.
Proof. exact raw_key_injective. Qed.
Print Assumptions C13_raw_key_injective.

Theorem C13_equal_objects_equal_hashed_keys : forall a b, a = b -> hashed_key a = hashed_key b.
Proof. exact equal_coordinates_equal_hashed_key. Qed.
Print Assumptions C13_equal_objects_equal_hashed_keys.

Theorem C13_hashed_key_collision_refuted : exists a b, a <> b /\ hashed_key a = hashed_key b.
Proof. exact hashed_key_collision. Qed.
Print Assumptions C13_hashed_key_collision_refuted.
