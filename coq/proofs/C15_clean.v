(* C15: vertex clean-up returns original vertices in their original order.  About gen/G9_clean.v. *)
From LBG Require Import Base QGeom ListCyc G0_vec G1_shapes G2_inter G3_poly G9_clean.
Open Scope Q_scope.

Lemma fold_left_inv {A B} (P : A -> Prop) (f : A -> B -> A) (l : list B) a0 :
  P a0 -> (forall acc x, In x l -> P acc -> P (f acc x)) -> P (fold_left f l a0).
Proof.
  revert a0. induction l as [|x r IH]; intros a0 H0 Hs; [exact H0|]. cbn [fold_left].
  apply IH; [apply Hs; [left; reflexivity| exact H0]| intros acc y Hy; apply Hs; right; exact Hy].
Qed.

Lemma enum_from_In {A} (l : list A) : forall k i x, In (i, x) (enum_from k l) ->
  (k <= i < k + Z.of_nat (length l))%Z /\ nth (Z.to_nat (i - k)) l x = x.
Proof.
  induction l as [|y r IH]; intros k i x H; [destruct H|]. cbn [enum_from length] in *.
  destruct H as [H|H].
  - inversion H; subst. split; [lia|]. replace (Z.to_nat (i - i)) with O by lia. reflexivity.
  - destruct (IH _ _ _ H) as [R N]. split; [lia|].
    replace (Z.to_nat (i - k)) with (S (Z.to_nat (i - (k + 1)))) by lia. exact N.
Qed.

Lemma py_nth_In {A} (l : list A) (i : Z) d : (- Z.of_nat (length l) <= i < Z.of_nat (length l))%Z -> In (py_nth l i d) l.
Proof.
  intros H. unfold py_nth. destruct (i <? 0)%Z eqn:E.
  - apply Z.ltb_lt in E. apply nth_In. lia.
  - apply Z.ltb_ge in E. apply nth_In. lia.
Qed.

Lemma getitem_is_py_nth p i : Base2DIn2D_op_getitem p i = py_nth (pg_vertices p) i (mkV2 0 0).
Proof. reflexivity. Qed.

(* remove_duplicate_vertices: a filter of the vertex list *)
Theorem remove_duplicates_is_filter p tol :
  pg_vertices (Polygon2D_remove_duplicate_vertices p tol) =
  map snd (filter (fun ip => negb (Vector2D_is_equivalent (snd ip) (py_nth (pg_vertices p) (fst ip - 1) (mkV2 0 0)) tol))
                  (py_enumerate (pg_vertices p))).
Proof.
  unfold Polygon2D_remove_duplicate_vertices, Polygon2D_op_init, Base2DIn2D__check_vertices_input. cbv zeta. vred.
  rewrite (map_ext _ snd) by (intros [i pt]; reflexivity).
  rewrite (filter_ext _ (fun ip => negb (Vector2D_is_equivalent (snd ip) (py_nth (pg_vertices p) (fst ip - 1) (mkV2 0 0)) tol)))
    by (intros [i pt]; reflexivity).
  reflexivity.
Qed.

Lemma map_snd_enum {A} (l : list A) k : map snd (enum_from k l) = l.
Proof. revert k. induction l as [|x r IH]; intros k; [reflexivity|]. cbn. rewrite IH. reflexivity. Qed.

(* hence: only original vertices, in their original order (a sub-list) *)
Inductive sublist {A} : list A -> list A -> Prop :=
| sub_nil : sublist [] []
| sub_skip x l r : sublist l r -> sublist l (x :: r)
| sub_keep x l r : sublist l r -> sublist (x :: l) (x :: r).

Lemma filter_sublist {A} (f : A -> bool) l : sublist (filter f l) l.
Proof. induction l as [|x r IH]; [constructor|]. cbn. destruct (f x); constructor; exact IH. Qed.
Lemma sublist_map {A B} (g : A -> B) l r : sublist l r -> sublist (map g l) (map g r).
Proof. induction 1; cbn; constructor; assumption. Qed.

Theorem remove_duplicates_sublist p tol :
  sublist (pg_vertices (Polygon2D_remove_duplicate_vertices p tol)) (pg_vertices p).
Proof.
  rewrite remove_duplicates_is_filter.
  rewrite <- (map_snd_enum (pg_vertices p) 0) at 2. apply sublist_map, filter_sublist.
Qed.

(* a vertex is dropped exactly when it is within the tolerance (per coordinate) of its cyclic predecessor *)
Theorem remove_duplicates_criterion p tol i v : In (i, v) (py_enumerate (pg_vertices p)) ->
  (In (i, v) (filter (fun ip => negb (Vector2D_is_equivalent (snd ip) (py_nth (pg_vertices p) (fst ip - 1) (mkV2 0 0)) tol))
                     (py_enumerate (pg_vertices p)))
   <-> ~ (Qabs (v2x v - v2x (py_nth (pg_vertices p) (i - 1) (mkV2 0 0))) <= tol /\
          Qabs (v2y v - v2y (py_nth (pg_vertices p) (i - 1) (mkV2 0 0))) <= tol)).
Proof.
  intros Hin. rewrite filter_In. cbn [fst snd]. unfold Vector2D_is_equivalent.
  rewrite negb_true_iff. split.
  - intros [_ H] [A B]. apply Qle_bool_iff in A, B. rewrite A, B in H. discriminate.
  - intros H. split; [exact Hin|]. destruct (Qle_bool _ tol) eqn:A; [|reflexivity].
    destruct (Qle_bool (Qabs (v2y v - _)) tol) eqn:B; [|reflexivity].
    exfalso. apply H. split; apply Qle_bool_iff; assumption.
Qed.

(* remove_colinear_vertices: every vertex of the result is a vertex of the input *)
Theorem remove_colinear_only_original_vertices qsqrt p tol v : pg_vertices p <> [] ->
  In v (pg_vertices (Polygon2D_remove_colinear_vertices qsqrt p tol)) -> In v (pg_vertices p).
Proof.
  intros Hne. unfold Polygon2D_remove_colinear_vertices, Polygon2D_op_init, Base2DIn2D__check_vertices_input. cbv zeta. vred.
  set (L := pg_vertices p) in *.
  assert (Hlen : (0 < Z.of_nat (length L))%Z) by (destruct L; [congruence| cbn [length]; lia]).
  match goal with |- context [fold_left ?f ?l ?a] => set (F := f); set (A0 := a) end.
  assert (INV : forall w, In w (fst (fst (fst (fold_left F (py_enumerate L) A0)))) -> In w L).
  { apply (fold_left_inv (fun acc => forall w, In w (fst (fst (fst acc))) -> In w L)).
    - unfold A0. cbn. intros w [].
    - intros [[[nv sk] isf] fs] [i x] Hin HP. unfold F. cbv beta iota zeta.
      destruct (enum_from_In L 0 i x Hin) as [R _].
      destruct (Qle_bool _ _).
      + destruct isf; cbn [fst]; intros w Hw; apply in_app_or in Hw; (destruct Hw as [Hw|[Hw|[]]]; [apply HP; exact Hw|]);
        subst w; rewrite getitem_is_py_nth; apply py_nth_In; fold L; lia.
      + cbn [fst]. exact HP. }
  destruct (fold_left F (py_enumerate L) A0) as [[[nv sk] isf] fs]. cbn [fst] in INV.
  destruct (negb (sk =? 0)%Z && negb (fs =? -1)%Z).
  - destruct (Qle_bool _ _).
    + intros Hv. apply in_app_or in Hv. destruct Hv as [Hv|[Hv|[]]]; [apply INV; exact Hv|].
      subst v. rewrite getitem_is_py_nth. apply py_nth_In. fold L. lia.
    + apply INV.
  - apply INV.
Qed.
