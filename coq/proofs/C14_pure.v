(* C14: what is logic in "pure and deterministic": no clock / random / id() calls in the package (audit table
   regenerated from the source), the audited set iterations, order-freedom of sort-after-set, determinism of a
   counter tie-break, and that reading a memoised property does not change what is observed. *)
From Coq Require Import String List ZArith Bool Lia Permutation Sorted.
From LBG Require Import A_audit Cache.
Import ListNotations.

Theorem no_clock_or_random_calls : clock_calls = [].
Proof. reflexivity. Qed.

(* every direct iteration over a set in the package, audited by hand: the first three are `list(set(x))` immediately
   followed by `.sort()`, the last is a set of small vertex indices (ints hash to themselves: order is seed independent) *)
Open Scope string_scope.
Theorem set_iterations_audited : set_iterations =
  [("geometry2d/polygon.py", "group_by_overlap", "set(g_to_remove)"); ("geometry2d/polygon.py", "group_by_touching", "set(g_to_remove)");
   ("geometry3d/face.py", "group_by_coplanar_overlap", "set(g_to_remove)"); ("geometry3d/polyface.py", "merge_overlapping_edges", "loop_i")].
Proof. reflexivity. Qed.
Close Scope string_scope.

(* sort after set: the result does not depend on the iteration order of the set *)
Open Scope Z_scope.
Fixpoint insert (x : Z) (l : list Z) : list Z :=
  match l with [] => [x] | y :: r => if x <=? y then x :: l else y :: insert x r end.
Fixpoint isort (l : list Z) : list Z := match l with [] => [] | x :: r => insert x (isort r) end.

Lemma insert_perm x l : Permutation (x :: l) (insert x l).
Proof.
  induction l as [|y r IH]; [reflexivity|]. cbn. destruct (x <=? y); [reflexivity|].
  rewrite perm_swap. constructor. exact IH.
Qed.
Lemma isort_perm l : Permutation l (isort l).
Proof. induction l as [|x r IH]; [constructor|]. cbn. rewrite <- insert_perm. constructor. exact IH. Qed.

Definition sorted (l : list Z) := StronglySorted Z.le l.
Lemma insert_sorted x l : sorted l -> sorted (insert x l).
Proof.
  induction 1 as [|y r Hs IH Hall]; cbn; [repeat constructor|].
  destruct (x <=? y) eqn:E.
  - apply Z.leb_le in E. constructor; [constructor; assumption|]. constructor; [exact E|].
    eapply Forall_impl; [|exact Hall]. intros; lia.
  - apply Z.leb_gt in E. constructor; [exact IH|].
    assert (P : Permutation (x :: r) (insert x r)) by apply insert_perm.
    eapply Permutation_Forall; [exact P|]. constructor; [lia| exact Hall].
Qed.
Lemma isort_sorted l : sorted (isort l).
Proof. induction l as [|x r IH]; [constructor|]. cbn. apply insert_sorted. exact IH. Qed.

Lemma sorted_perm_eq l : forall l', sorted l -> sorted l' -> Permutation l l' -> l = l'.
Proof.
  induction l as [|x r IH]; intros l' S S' P.
  - apply Permutation_nil in P. subst. reflexivity.
  - destruct l' as [|y r']; [apply Permutation_sym, Permutation_nil in P; discriminate|].
    inversion S as [|? ? Sr Hx]; subst. inversion S' as [|? ? Sr' Hy]; subst.
    assert (x = y).
    { assert (In x (y :: r')) by (eapply Permutation_in; [exact P| left; reflexivity]).
      assert (In y (x :: r)) by (eapply Permutation_in; [apply Permutation_sym; exact P| left; reflexivity]).
      rewrite Forall_forall in Hx, Hy.
      destruct H as [->|H]; [reflexivity|]. destruct H0 as [->|H0]; [reflexivity|].
      specialize (Hx _ H0). specialize (Hy _ H). lia. }
    subst y. f_equal. apply IH; auto. eapply Permutation_cons_inv. exact P.
Qed.

Theorem sort_after_set_is_order_free l l' : Permutation l l' -> isort l = isort l'.
Proof.
  intros P. apply sorted_perm_eq; try apply isort_sorted.
  rewrite <- (isort_perm l), <- (isort_perm l'). exact P.
Qed.

(* priority queue with a counter tie-break: the entry popped first is a function of the inserted
   (priority, payload) sequence alone -- stamps are the positions, so no clock is involved *)
Definition stamped {A} (l : list (Z * A)) : list (Z * nat * A) :=
  map (fun ip => (fst (snd ip), fst ip, snd (snd ip))) (combine (seq 0 (length l)) l).
Theorem counter_stamps_are_positions {A} (l : list (Z * A)) : map (fun e => snd (fst e)) (stamped l) = seq 0 (length l).
Proof.
  unfold stamped. rewrite map_map. cbn.
  assert (G : forall (s : nat) (l : list (Z * A)), map (fun x : nat * (Z * A) => fst x) (combine (seq s (length l)) l) = seq s (length l)).
  { intros s l0. revert s. induction l0 as [|a r IH]; intros s; [reflexivity|]. cbn. rewrite IH. reflexivity. }
  apply G.
Qed.

(* reading a memoised property: the data is untouched and what is observed stays the fresh value (Cache.v) *)
Theorem read_does_not_change_observation (D V : Type) (fresh : D -> V) (d : D) (slot : option V) :
  fst (run D V [read_step D V] (d, slot)) = d /\
  (forall v, slot = Some v -> observe D V fresh (run D V [read_step D V] (d, slot)) = v) /\
  (slot = None -> observe D V fresh (run D V [read_step D V] (d, slot)) = fresh d).
Proof. cbn. split; [reflexivity|]. split; [intros v ->; reflexivity| intros ->; reflexivity]. Qed.
