(* C17_arcs.v -- arc-length parametrisation of arcs and segments (generated Arc2D / Arc3D / LineSegment point_at, point_at_angle,
   point_at_length, length): point_at_length(d) is the point at the fraction d / length; for an arc that is the point at angle
   a1 + d / r (wrapped once past 2 pi) on the circle; the 3D arc is the image of its 2D arc under the plane map for every one of these;
   on a segment the point is at distance d from the start. *)
From LBG Require Import Base QGeom G0_vec G1_shapes G2_inter G3_poly G5_bound G8_curve.
Open Scope Q_scope.

Section Arcs.
Variables (qcos qsin : Q -> Q) (qpi : Q).
Hypothesis cos_proper : forall a b, a == b -> qcos a == qcos b.
Hypothesis sin_proper : forall a b, a == b -> qsin a == qsin b.

(* the angle of the point at angle-from-start g: a1 + g, taken back once by 2 pi when it passes 2 pi *)
Definition wrap (u : Q) : Q := if Qle_bool u (qpi * 2) then u else u - qpi * 2.

Lemma wrap_proper a b : a == b -> wrap a == wrap b.
Proof.
  intros E. unfold wrap. destruct (Qle_bool a (qpi * 2)) eqn:A; destruct (Qle_bool b (qpi * 2)) eqn:B.
  - exact E.
  - apply Qle_bool_iff in A. rewrite E in A. apply Qle_bool_iff in A. rewrite A in B. discriminate B.
  - apply Qle_bool_iff in B. rewrite <- E in B. apply Qle_bool_iff in B. rewrite B in A. discriminate A.
  - rewrite E. reflexivity.
Qed.

Definition circle_point (a : Arc2R) (w : Q) : V2 := mkV2 (v2x (a2_c a) + qcos w * a2_r a) (v2y (a2_c a) + qsin w * a2_r a).

Theorem arc2_point_at_angle_spec a g : Arc2D_point_at_angle qcos qsin qpi a g = circle_point a (wrap (a2_a1 a + g)).
Proof. reflexivity. Qed.

Theorem arc2_point_at_is_point_at_angle a t : Arc2D_point_at qcos qsin qpi a t = Arc2D_point_at_angle qcos qsin qpi a (Arc2D_angle qpi a * t).
Proof. reflexivity. Qed.

Theorem arc2_point_at_length_is_fraction a d : Arc2D_point_at_length qcos qsin qpi a d = Arc2D_point_at qcos qsin qpi a (d / Arc2D_length qpi a).
Proof. reflexivity. Qed.

Lemma circle_point_proper a w1 w2 : w1 == w2 -> circle_point a w1 =2= circle_point a w2.
Proof. intros E. unfold circle_point. split; cbn [v2x v2y]; rewrite (cos_proper _ _ E) || rewrite (sin_proper _ _ E); reflexivity. Qed.

(* arc-length parametrisation: the point at arc length d from the start is at angle a1 + d / r *)
Theorem arc2_point_at_length_angle a d : ~ a2_r a == 0 -> ~ Arc2D_angle qpi a == 0 ->
  Arc2D_point_at_length qcos qsin qpi a d =2= circle_point a (wrap (a2_a1 a + d / a2_r a)).
Proof.
  intros R A. rewrite arc2_point_at_length_is_fraction, arc2_point_at_is_point_at_angle, arc2_point_at_angle_spec.
  apply circle_point_proper, wrap_proper. unfold Arc2D_length. field. split; assumption.
Qed.

(* every such point is on the circle (where the oracles satisfy cos^2 + sin^2 = 1 at that angle) *)
Theorem circle_point_on_circle a w : qcos w * qcos w + qsin w * qsin w == 1 -> sqd2 (circle_point a w) (a2_c a) == a2_r a * a2_r a.
Proof.
  intros H. unfold circle_point, sqd2, dot2, sub2. cbn [v2x v2y].
  transitivity ((qcos w * qcos w + qsin w * qsin w) * (a2_r a * a2_r a)); [ring|]. rewrite H. ring.
Qed.

Theorem arc2_point_at_length_on_circle a d : ~ a2_r a == 0 -> ~ Arc2D_angle qpi a == 0 ->
  let w := wrap (a2_a1 a + d / a2_r a) in qcos w * qcos w + qsin w * qsin w == 1 ->
  sqd2 (Arc2D_point_at_length qcos qsin qpi a d) (a2_c a) == a2_r a * a2_r a.
Proof.
  intros R A w H. pose proof (arc2_point_at_length_angle a d R A) as [Ex Ey]. fold w in Ex, Ey.
  rewrite <- (circle_point_on_circle a w H). unfold sqd2, dot2, sub2. cbn [v2x v2y]. rewrite Ex, Ey. reflexivity.
Qed.

(* start and end: length 0 is the start angle; the whole length is a1 + angle *)
Theorem arc2_point_at_length_start a : ~ a2_r a == 0 -> ~ Arc2D_angle qpi a == 0 ->
  Arc2D_point_at_length qcos qsin qpi a 0 =2= circle_point a (wrap (a2_a1 a)).
Proof.
  intros R A. rewrite (arc2_point_at_length_angle a 0 R A). apply circle_point_proper, wrap_proper. field. exact R.
Qed.

Theorem arc2_point_at_length_end a : ~ a2_r a == 0 -> ~ Arc2D_angle qpi a == 0 ->
  Arc2D_point_at_length qcos qsin qpi a (Arc2D_length qpi a) =2= circle_point a (wrap (a2_a1 a + Arc2D_angle qpi a)).
Proof.
  intros R A. rewrite (arc2_point_at_length_angle a _ R A). apply circle_point_proper, wrap_proper. unfold Arc2D_length. field. exact R.
Qed.

(* the 3D arc: angle and length are those of its 2D arc, and each point routine is the plane image of the 2D one *)
Theorem arc3_angle_is_arc2_angle a : Arc3D_angle qpi a = Arc2D_angle qpi (a3_arc2d a).
Proof. reflexivity. Qed.

Theorem arc3_length_is_arc2_length a : Arc3D_length qpi a = Arc2D_length qpi (a3_arc2d a).
Proof. reflexivity. Qed.

Theorem arc3_point_at_is_image a t : Arc3D_point_at qcos qsin qpi a t = Plane_xy_to_xyz (a3_plane a) (Arc2D_point_at qcos qsin qpi (a3_arc2d a) t).
Proof. reflexivity. Qed.

Theorem arc3_point_at_angle_is_image a g :
  Arc3D_point_at_angle qcos qsin qpi a g = Plane_xy_to_xyz (a3_plane a) (Arc2D_point_at_angle qcos qsin qpi (a3_arc2d a) g).
Proof. reflexivity. Qed.

Theorem arc3_point_at_length_is_image a d :
  Arc3D_point_at_length qcos qsin qpi a d = Plane_xy_to_xyz (a3_plane a) (Arc2D_point_at_length qcos qsin qpi (a3_arc2d a) d).
Proof. reflexivity. Qed.

Theorem arc3_point_at_length_is_fraction a d : Arc3D_point_at_length qcos qsin qpi a d = Arc3D_point_at qcos qsin qpi a (d / Arc3D_length qpi a).
Proof. reflexivity. Qed.
End Arcs.

Section Segments.
Variable qsqrt : Q -> Q.

Theorem segment2_point_at_length_is_fraction s d :
  LineSegment2D_point_at_length qsqrt s d = LineSegment2D_point_at s (d / LineSegment2D_length qsqrt s).
Proof. reflexivity. Qed.

Theorem segment3_point_at_length_is_fraction s d :
  LineSegment3D_point_at_length qsqrt s d = LineSegment3D_point_at s (d / LineSegment3D_length qsqrt s).
Proof. reflexivity. Qed.

(* with the root exact at |v|^2 (and the segment not degenerate) the point is at distance d from the start *)
Theorem segment2_point_at_length_distance s d :
  let m := v2x (lr2v s) * v2x (lr2v s) + v2y (lr2v s) * v2y (lr2v s) in
  qsqrt m * qsqrt m == m -> ~ m == 0 -> sqd2 (LineSegment2D_point_at_length qsqrt s d) (lr2p s) == d * d.
Proof.
  intros m H N.
  assert (Q0 : ~ qsqrt m == 0) by (intros Z; apply N; rewrite <- H, Z; ring).
  unfold LineSegment2D_point_at_length, LineSegment2D_length, Vector2D_magnitude, Vector2D_op_abs, Vector2D_op_add, Vector2D_op_mul, sqd2, dot2, sub2.
  cbn [v2x v2y]. fold m. set (q := qsqrt m) in *.
  transitivity (m * (d * d) / (q * q)); [unfold m; field; exact Q0|]. rewrite H. field. exact N.
Qed.

Theorem segment3_point_at_length_distance s d :
  let m := v3x (lr3v s) * v3x (lr3v s) + v3y (lr3v s) * v3y (lr3v s) + v3z (lr3v s) * v3z (lr3v s) in
  qsqrt m * qsqrt m == m -> ~ m == 0 -> sqd3 (LineSegment3D_point_at_length qsqrt s d) (lr3p s) == d * d.
Proof.
  intros m H N.
  assert (Q0 : ~ qsqrt m == 0) by (intros Z; apply N; rewrite <- H, Z; ring).
  unfold LineSegment3D_point_at_length, LineSegment3D_length, Vector3D_magnitude, Vector3D_op_abs, Vector3D_op_add, Vector3D_op_mul, sqd3, dot3, sub3.
  cbn [v3x v3y v3z]. fold m. set (q := qsqrt m) in *.
  transitivity (m * (d * d) / (q * q)); [unfold m; field; exact Q0|]. rewrite H. field. exact N.
Qed.
End Segments.
