(* C12: closest points on segments / rays / lines / planes lie on the object and
   minimise the (squared) distance.  Statements about gen/G2_inter.v. *)
From LBG Require Import Base QGeom G0_vec G1_shapes G2_inter C11_inter2d.
Open Scope Q_scope.

Definition on3 (l : LR3) (u : Q) : V3 :=
  mkV3 (v3x (lr3p l) + u * v3x (lr3v l)) (v3y (lr3p l) + u * v3y (lr3v l)) (v3z (lr3p l) + u * v3z (lr3v l)).

Definition clamp01 (u : Q) : Q := Qmax (Qmin u 1) 0.

Lemma clamp01_cases u :
  (u < 0 /\ clamp01 u == 0) \/ (0 <= u <= 1 /\ clamp01 u == u) \/ (1 < u /\ clamp01 u == 1).
Proof.
  unfold clamp01.
  destruct (Q.min_spec u 1) as [[H1 E1]|[H1 E1]]; destruct (Q.max_spec (Qmin u 1) 0) as [[H2 E2]|[H2 E2]];
  rewrite E1 in *; rewrite E2 in *; lra.
Qed.

Lemma sq_self_le w t : (w - w) * (w - w) <= (t - w) * (t - w).
Proof. assert (E : (w - w) * (w - w) == 0) by ring. rewrite E. apply Qsq_nonneg. Qed.

Lemma clamp_closer w t : 0 <= t -> t <= 1 -> (clamp01 w - w) * (clamp01 w - w) <= (t - w) * (t - w).
Proof.
  intros T0 T1. destruct (clamp01_cases w) as [[H C]|[[H C]|[H C]]]; rewrite C.
  - assert (0 <= t * (t - 2 * w)) by (apply Qmult_le_0_compat; lra). lra.
  - apply sq_self_le.
  - assert (0 <= (1 - t) * (2 * w - t - 1)) by (apply Qmult_le_0_compat; lra). lra.
Qed.

Lemma clamp_closer_ray w t : 0 <= t -> w < 0 -> (clamp01 w - w) * (clamp01 w - w) <= (t - w) * (t - w).
Proof.
  intros T0 W. destruct (clamp01_cases w) as [[H C]|[[H C]|[H C]]]; rewrite C; try lra.
  assert (0 <= t * (t - 2 * w)) by (apply Qmult_le_0_compat; lra). lra.
Qed.

(* ------------------------------------------------------------------ 2D *)
Section Closest2.
Variable l : LR2.
Variable q : V2.
Notation d := (dot2 (lr2v l) (lr2v l)).
Notation ustar := (dot2 (sub2 q (lr2p l)) (lr2v l) / d).

(* squared distance from q to the point with parameter t, as a quadratic in t *)
Lemma sqd_param t : ~ d == 0 ->
  sqd2 q (on2 l t) == sqd2 q (lr2p l) + d * ((t - ustar) * (t - ustar) - ustar * ustar).
Proof. intros Hd. unfold sqd2, dot2, sub2, on2 in *. vred. field. exact Hd. Qed.

Lemma d_pos : ~ d == 0 -> 0 < d.
Proof. intros H. pose proof (dot2_self_nonneg (lr2v l)). lra. Qed.

Lemma closer_param t u : ~ d == 0 -> (u - ustar) * (u - ustar) <= (t - ustar) * (t - ustar) ->
  sqd2 q (on2 l u) <= sqd2 q (on2 l t).
Proof.
  intros Hd H. rewrite (sqd_param t Hd), (sqd_param u Hd). pose proof (d_pos Hd) as Hp.
  set (A := (u - ustar) * (u - ustar)) in *. set (B := (t - ustar) * (t - ustar)) in *.
  set (C := ustar * ustar). set (dd := d) in *.
  clearbody A B C dd. assert (0 <= dd * (B - A)) by (apply Qmult_le_0_compat; lra). lra.
Qed.

(* infinite line: the projection parameter is optimal among all t *)
Lemma line_optimal t : ~ d == 0 -> sqd2 q (on2 l ustar) <= sqd2 q (on2 l t).
Proof. intros Hd. apply closer_param; auto. apply sq_self_le. Qed.

(* segment: clamped projection is optimal among t in [0,1] *)
Lemma seg_optimal t : ~ d == 0 -> in_seg t ->
  sqd2 q (on2 l (if negb (LineSegment2D__u_in l ustar) then clamp01 ustar else ustar)) <= sqd2 q (on2 l t).
Proof.
  intros Hd [T0 T1]. apply closer_param; auto.
  destruct (LineSegment2D__u_in l ustar) eqn:E; cbn [negb]; [apply sq_self_le|].
  apply clamp_closer; assumption.
Qed.

(* ray: clamped at 0 only when the projection parameter is negative *)
Lemma ray_optimal t : ~ d == 0 -> in_ray t ->
  sqd2 q (on2 l (if negb (Ray2D__u_in l ustar) then clamp01 ustar else ustar)) <= sqd2 q (on2 l t).
Proof.
  intros Hd T0. unfold in_ray in T0. apply closer_param; auto.
  destruct (Ray2D__u_in l ustar) eqn:E; cbn [negb]; [apply sq_self_le|].
  assert (ustar < 0).
  { unfold Ray2D__u_in in E. apply Qle_bool_false_iff in E. exact E. }
  apply clamp_closer_ray; assumption.
Qed.
End Closest2.

(* the generated functions are these formulas *)
Lemma closest_seg2_is p l : ~ dot2 (lr2v l) (lr2v l) == 0 ->
  closest_point2d_on_line2d_seg p l =
  on2 l (let u := dot2 (sub2 p (lr2p l)) (lr2v l) / dot2 (lr2v l) (lr2v l) in
         if negb (LineSegment2D__u_in l u) then clamp01 u else u).
Proof.
  intros Hd. unfold closest_point2d_on_line2d_seg, Vector2D_magnitude_squared. cbv zeta.
  destruct (Qeq_bool _ 0) eqn:E; [apply Qeq_bool_iff in E; unfold dot2 in Hd; tauto|].
  reflexivity.
Qed.
Lemma closest_ray2_is p l : ~ dot2 (lr2v l) (lr2v l) == 0 ->
  closest_point2d_on_line2d_ray p l =
  on2 l (let u := dot2 (sub2 p (lr2p l)) (lr2v l) / dot2 (lr2v l) (lr2v l) in
         if negb (Ray2D__u_in l u) then clamp01 u else u).
Proof.
  intros Hd. unfold closest_point2d_on_line2d_ray, Vector2D_magnitude_squared. cbv zeta.
  destruct (Qeq_bool _ 0) eqn:E; [apply Qeq_bool_iff in E; unfold dot2 in Hd; tauto|].
  reflexivity.
Qed.
Lemma closest_inf2_is p l : ~ dot2 (lr2v l) (lr2v l) == 0 ->
  closest_point2d_on_line2d_infinite_seg p l = on2 l (dot2 (sub2 p (lr2p l)) (lr2v l) / dot2 (lr2v l) (lr2v l)).
Proof.
  intros Hd. unfold closest_point2d_on_line2d_infinite_seg, Vector2D_magnitude_squared. cbv zeta.
  destruct (Qeq_bool _ 0) eqn:E; [apply Qeq_bool_iff in E; unfold dot2 in Hd; tauto|].
  reflexivity.
Qed.

(* on the object: the returned parameter is admissible *)
Lemma closest_seg2_param_in p l :
  let u := dot2 (sub2 p (lr2p l)) (lr2v l) / dot2 (lr2v l) (lr2v l) in
  in_seg (if negb (LineSegment2D__u_in l u) then clamp01 u else u).
Proof.
  intros u. destruct (LineSegment2D__u_in l u) eqn:E; cbn [negb].
  - apply seg_u_in_iff in E. exact E.
  - unfold in_seg. destruct (clamp01_cases u) as [[H C]|[[H C]|[H C]]]; rewrite C; lra.
Qed.
Lemma closest_ray2_param_in p l :
  let u := dot2 (sub2 p (lr2p l)) (lr2v l) / dot2 (lr2v l) (lr2v l) in
  in_ray (if negb (Ray2D__u_in l u) then clamp01 u else u).
Proof.
  intros u. destruct (Ray2D__u_in l u) eqn:E; cbn [negb].
  - apply ray_u_in_iff in E. exact E.
  - unfold in_ray. destruct (clamp01_cases u) as [[H C]|[[H C]|[H C]]]; rewrite C; lra.
Qed.

Theorem closest_point2d_segment_correct p l : ~ dot2 (lr2v l) (lr2v l) == 0 ->
  (exists u, in_seg u /\ closest_point2d_on_line2d_seg p l = on2 l u) /\
  (forall t, in_seg t -> sqd2 p (closest_point2d_on_line2d_seg p l) <= sqd2 p (on2 l t)).
Proof.
  intros Hd. rewrite (closest_seg2_is p l Hd). split.
  - eexists; split; [apply closest_seg2_param_in | reflexivity].
  - intros t Ht. cbv zeta. apply seg_optimal; auto.
Qed.
Theorem closest_point2d_ray_correct p l : ~ dot2 (lr2v l) (lr2v l) == 0 ->
  (exists u, in_ray u /\ closest_point2d_on_line2d_ray p l = on2 l u) /\
  (forall t, in_ray t -> sqd2 p (closest_point2d_on_line2d_ray p l) <= sqd2 p (on2 l t)).
Proof.
  intros Hd. rewrite (closest_ray2_is p l Hd). split.
  - eexists; split; [apply closest_ray2_param_in | reflexivity].
  - intros t Ht. cbv zeta. apply ray_optimal; auto.
Qed.
Theorem closest_point2d_line_correct p l : ~ dot2 (lr2v l) (lr2v l) == 0 ->
  forall t, sqd2 p (closest_point2d_on_line2d_infinite_seg p l) <= sqd2 p (on2 l t).
Proof. intros Hd t. rewrite (closest_inf2_is p l Hd). apply line_optimal; auto. Qed.

(* a query on the segment is its own closest point (distance zero) *)
Theorem closest_point2d_segment_on_object l t : ~ dot2 (lr2v l) (lr2v l) == 0 -> in_seg t ->
  sqd2 (on2 l t) (closest_point2d_on_line2d_seg (on2 l t) l) == 0.
Proof.
  intros Hd Ht. destruct (closest_point2d_segment_correct (on2 l t) l Hd) as [_ M].
  specialize (M t Ht).
  assert (Z : sqd2 (on2 l t) (on2 l t) == 0) by (unfold sqd2, dot2, sub2; vred; ring).
  assert (0 <= sqd2 (on2 l t) (closest_point2d_on_line2d_seg (on2 l t) l)) by (apply dot2_self_nonneg).
  lra.
Qed.

(* ------------------------------------------------------------------ 3D *)
Section Closest3.
Variable l : LR3.
Variable q : V3.
Notation d := (dot3 (lr3v l) (lr3v l)).
Notation ustar := (dot3 (sub3 q (lr3p l)) (lr3v l) / d).

Lemma sqd3_param t : ~ d == 0 ->
  sqd3 q (on3 l t) == sqd3 q (lr3p l) + d * ((t - ustar) * (t - ustar) - ustar * ustar).
Proof. intros Hd. unfold sqd3, dot3, sub3, on3 in *. vred. field. exact Hd. Qed.

Lemma d3_pos : ~ d == 0 -> 0 < d.
Proof. intros H. pose proof (dot3_self_nonneg (lr3v l)). lra. Qed.

Lemma closer_param3 t u : ~ d == 0 -> (u - ustar) * (u - ustar) <= (t - ustar) * (t - ustar) ->
  sqd3 q (on3 l u) <= sqd3 q (on3 l t).
Proof.
  intros Hd H. rewrite (sqd3_param t Hd), (sqd3_param u Hd). pose proof (d3_pos Hd) as Hp.
  set (A := (u - ustar) * (u - ustar)) in *. set (B := (t - ustar) * (t - ustar)) in *.
  set (C := ustar * ustar). set (dd := d) in *.
  clearbody A B C dd. assert (0 <= dd * (B - A)) by (apply Qmult_le_0_compat; lra). lra.
Qed.

Lemma seg3_optimal t : ~ d == 0 -> in_seg t ->
  sqd3 q (on3 l (if negb (LineSegment3D__u_in l ustar) then clamp01 ustar else ustar)) <= sqd3 q (on3 l t).
Proof.
  intros Hd [T0 T1]. apply closer_param3; auto.
  destruct (LineSegment3D__u_in l ustar) eqn:E; cbn [negb]; [apply sq_self_le|].
  apply clamp_closer; assumption.
Qed.
Lemma ray3_optimal t : ~ d == 0 -> in_ray t ->
  sqd3 q (on3 l (if negb (Ray3D__u_in l ustar) then clamp01 ustar else ustar)) <= sqd3 q (on3 l t).
Proof.
  intros Hd T0. unfold in_ray in T0. apply closer_param3; auto.
  destruct (Ray3D__u_in l ustar) eqn:E; cbn [negb]; [apply sq_self_le|].
  assert (ustar < 0) by (unfold Ray3D__u_in in E; apply Qle_bool_false_iff in E; exact E).
  apply clamp_closer_ray; assumption.
Qed.
Lemma line3_optimal t : ~ d == 0 -> sqd3 q (on3 l ustar) <= sqd3 q (on3 l t).
Proof. intros Hd. apply closer_param3; auto. apply sq_self_le. Qed.
End Closest3.

Lemma closest_seg3_is p l : ~ dot3 (lr3v l) (lr3v l) == 0 ->
  closest_point3d_on_line3d_seg p l =
  on3 l (let u := dot3 (sub3 p (lr3p l)) (lr3v l) / dot3 (lr3v l) (lr3v l) in
         if negb (LineSegment3D__u_in l u) then clamp01 u else u).
Proof.
  intros Hd. unfold closest_point3d_on_line3d_seg, Vector3D_magnitude_squared. cbv zeta.
  destruct (Qeq_bool _ 0) eqn:E; [apply Qeq_bool_iff in E; unfold dot3 in Hd; tauto|].
  reflexivity.
Qed.
Lemma closest_ray3_is p l : ~ dot3 (lr3v l) (lr3v l) == 0 ->
  closest_point3d_on_line3d_ray p l =
  on3 l (let u := dot3 (sub3 p (lr3p l)) (lr3v l) / dot3 (lr3v l) (lr3v l) in
         if negb (Ray3D__u_in l u) then clamp01 u else u).
Proof.
  intros Hd. unfold closest_point3d_on_line3d_ray, Vector3D_magnitude_squared. cbv zeta.
  destruct (Qeq_bool _ 0) eqn:E; [apply Qeq_bool_iff in E; unfold dot3 in Hd; tauto|].
  reflexivity.
Qed.

Theorem closest_point3d_segment_correct p l : ~ dot3 (lr3v l) (lr3v l) == 0 ->
  forall t, in_seg t -> sqd3 p (closest_point3d_on_line3d_seg p l) <= sqd3 p (on3 l t).
Proof. intros Hd t Ht. rewrite (closest_seg3_is p l Hd). cbv zeta. apply seg3_optimal; auto. Qed.
Theorem closest_point3d_ray_correct p l : ~ dot3 (lr3v l) (lr3v l) == 0 ->
  forall t, in_ray t -> sqd3 p (closest_point3d_on_line3d_ray p l) <= sqd3 p (on3 l t).
Proof. intros Hd t Ht. rewrite (closest_ray3_is p l Hd). cbv zeta. apply ray3_optimal; auto. Qed.

(* --------------------------------------------------------------- plane *)
(* with a unit normal and k = n.o the projection is on the plane and minimal (Pythagoras) *)
Theorem closest_point3d_on_plane_correct pl p : dot3 (pl_n pl) (pl_n pl) == 1 ->
  dot3 (pl_n pl) (closest_point3d_on_plane p pl) == pl_k pl /\
  forall x, dot3 (pl_n pl) x == pl_k pl -> sqd3 p (closest_point3d_on_plane p pl) <= sqd3 p x.
Proof.
  intros U. unfold closest_point3d_on_plane, Vector3D_dot, sqd3, dot3, sub3 in *. vred.
  set (nx := v3x (pl_n pl)) in *; set (ny := v3y (pl_n pl)) in *; set (nz := v3z (pl_n pl)) in *.
  set (k := pl_k pl) in *. set (px := v3x p); set (py := v3y p); set (pz := v3z p).
  set (dd := px * nx + py * ny + pz * nz - k).
  split.
  - transitivity (k + dd * (1 - (nx*nx + ny*ny + nz*nz))); [unfold dd; ring| rewrite U; ring].
  - intros x Hx. set (xx := v3x x) in *; set (xy := v3y x) in *; set (xz := v3z x) in *.
    (* |p - x|^2 - |p - r|^2 = |r - x|^2 >= 0  where r = p - n dd, using n.x = k and |n| = 1 *)
    assert (E : (px - xx)*(px - xx) + (py - xy)*(py - xy) + (pz - xz)*(pz - xz)
              - ((px - (px - nx*dd))*(px - (px - nx*dd)) + (py - (py - ny*dd))*(py - (py - ny*dd)) + (pz - (pz - nz*dd))*(pz - (pz - nz*dd)))
              == ((px - nx*dd - xx)*(px - nx*dd - xx) + (py - ny*dd - xy)*(py - ny*dd - xy) + (pz - nz*dd - xz)*(pz - nz*dd - xz))
                 - 2 * dd * (nx*xx + ny*xy + nz*xz - k) + 2 * dd * dd * (1 - (nx*nx + ny*ny + nz*nz))).
    { unfold dd. ring. }
    rewrite Hx, U in E.
    pose proof (Qsq_nonneg (px - nx*dd - xx)). pose proof (Qsq_nonneg (py - ny*dd - xy)).
    pose proof (Qsq_nonneg (pz - nz*dd - xz)).
    clearbody dd px py pz xx xy xz nx ny nz k. lra.
Qed.
