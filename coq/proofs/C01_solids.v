(* C01_solids.v -- closed forms of Sphere, Cylinder and Cone (generated area / volume / height / radius / slant_height): the reported values
   are the textbook formulas in the radius and the length of the axis, they scale by k^2 / k^3 under the generated `scale`, and the slant
   height closes the right triangle of radius and height.  pi, sqrt and tan are oracle parameters; only exactness of the root at the one
   argument in question (and, for scaling, its homogeneity sqrt(k^2 m) = k sqrt(m) for k >= 0) is assumed. *)
From Coq Require Import QArith Lqa.
From LBG Require Import Base QGeom G0_vec G1_shapes G3_poly G4_face G12_mesh.
Open Scope Q_scope.

Section Solids.
Variables (qsqrt qtan : Q -> Q) (qpi : Q).
Hypothesis sqrt_proper : forall a b, a == b -> qsqrt a == qsqrt b.

Definition len2 (v : V3) : Q := v3x v * v3x v + v3y v * v3y v + v3z v * v3z v.

Theorem sphere_closed_forms s :
  Sphere_area qpi s == 4 * qpi * (sp_r s * sp_r s) /\ Sphere_volume qpi s == (4 # 3) * qpi * (sp_r s * sp_r s * sp_r s).
Proof. unfold Sphere_area, Sphere_volume. split; field. Qed.

Theorem sphere_scale_law s k o :
  Sphere_area qpi (Sphere_scale s k o) == k * k * Sphere_area qpi s /\
  Sphere_volume qpi (Sphere_scale s k o) == k * k * k * Sphere_volume qpi s.
Proof. unfold Sphere_area, Sphere_volume, Sphere_scale, Sphere_op_init. cbn [sp_r]. split; field. Qed.

Theorem cylinder_closed_forms c : let h := Cylinder_height qsqrt c in
  Cylinder_volume qsqrt qpi c == qpi * (cy_r c * cy_r c) * h /\
  Cylinder_area qsqrt qpi c == 2 * qpi * cy_r c * (cy_r c + h) /\
  (qsqrt (len2 (cy_axis c)) * qsqrt (len2 (cy_axis c)) == len2 (cy_axis c) -> h * h == len2 (cy_axis c)).
Proof.
  cbv zeta. unfold Cylinder_volume, Cylinder_area, Cylinder_height, Vector3D_magnitude, Vector3D_op_abs, len2.
  split; [ring|]. split; [ring|]. intros H. exact H.
Qed.

Hypothesis sqrt_homogeneous : forall k m, 0 <= k -> qsqrt (k * k * m) == k * qsqrt m.

Lemma scaled_axis_length v k : 0 <= k -> Vector3D_magnitude qsqrt (Vector3D_op_mul v k) == k * Vector3D_magnitude qsqrt v.
Proof.
  intros Hk. unfold Vector3D_magnitude, Vector3D_op_abs, Vector3D_op_mul. cbn [v3x v3y v3z].
  rewrite <- (sqrt_homogeneous k _ Hk). apply sqrt_proper. ring.
Qed.

Theorem cylinder_scale_law c k o : 0 <= k ->
  Cylinder_volume qsqrt qpi (Cylinder_scale c k o) == k * k * k * Cylinder_volume qsqrt qpi c /\
  Cylinder_area qsqrt qpi (Cylinder_scale c k o) == k * k * Cylinder_area qsqrt qpi c.
Proof.
  intros Hk. unfold Cylinder_volume, Cylinder_area, Cylinder_height, Cylinder_scale, Cylinder_op_init. cbn [cy_r cy_axis].
  rewrite (scaled_axis_length (cy_axis c) k Hk). split; ring.
Qed.

Theorem cone_closed_forms c : let h := Cone_height qsqrt c in let R := Cone_radius qsqrt qtan c in let L := Cone_slant_height qsqrt qtan c in
  R == h * qtan (co_angle c) /\
  Cone_volume qsqrt qtan qpi c == qpi * (R * R) * h / 3 /\
  Cone_area qsqrt qtan qpi c == qpi * R * (R + L) /\
  (qsqrt (R * R + h * h) * qsqrt (R * R + h * h) == R * R + h * h -> L * L == R * R + h * h).
Proof.
  cbv zeta. unfold Cone_volume, Cone_area, Cone_slant_height. split; [unfold Cone_radius; reflexivity|].
  split; [field|]. split; [ring|]. intros H. exact H.
Qed.

Theorem cone_scale_law c k o : 0 <= k ->
  Cone_radius qsqrt qtan (Cone_scale c k o) == k * Cone_radius qsqrt qtan c /\
  Cone_volume qsqrt qtan qpi (Cone_scale c k o) == k * k * k * Cone_volume qsqrt qtan qpi c.
Proof.
  intros Hk. unfold Cone_volume, Cone_radius, Cone_height, Cone_scale, Cone_op_init. cbn [co_axis co_angle].
  rewrite (scaled_axis_length (co_axis c) k Hk). split; ring.
Qed.
End Solids.
